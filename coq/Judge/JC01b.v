(* Judge for C01b: what is stored in a record is what navigation returns.
   case = (tree kinds vals record schema top obs counters)
     tree     abstract record description (JLayoutCommon wire form)
     counters ((counter-id value path) ...)  the count vector of OCCURS DEPENDING ON tables and where each counter lives
              (absent or empty: no OCCURS DEPENDING ON)
     kinds    ((id tag u signed m n) ...)  USAGE / PICTURE of every elementary item:
              tag 0 packed, 1 zoned, 2 binary S?9(m)V9(n) with usage spelling u; tag 3 text X(m)
     vals     ((path value) ...)  the value assigned to every elementary occurrence that owns storage,
              value = (0 (digits) sign-nibble) | (1 z) | (2 (code points)); path = ((0 id) | (1 index) ...)
     record   the bytes the harness sent to the implementation
     schema   the emitted JSON schema (structure): (0 schema) | (1 exn)
     top      (0 end) | (1 exn)  end of the location from_instance built
     obs      ((path o) ...)  o = (0 start end raw val) | (1 exn): nav along the path, then
              val = (0 pv) | (1 exn) = nav.value();  pv = (0 pyval) | (1 (pv ...)) | (2 ((key pv) ...))
   The judge recomputes the record from Spec/Record.v and REJECTS the case (verdict 9) when the bytes sent differ,
   when a hypothesis of C01b_stored_is_read / C01b_stored_is_read_odo fails (record_ok; the shapes outside wf / wfo by their
   trigger predicates; a counter whose assigned value does not decode to the count the tables were laid out with) or when
   the observation lacks an elementary occurrence.
   good  = every elementary occurrence that owns storage was read, at the specification's place, with the specification's
           bytes, as the value that was assigned (py_of (stored ...)); the record ends at its extent
   agree = emitted schema = build t; every observed path (also the redefining items and the groups) = the model
           (vnav_path, vnav_raw, vnav_value with the per-field decoder field_dec) *)
From Coq Require Import ZArith NArith List Bool.
Import ListNotations.
Require Import SR.Base.Sx SR.Base.Res SR.Base.Dec SR.Spec.Layout SR.Spec.Encode SR.Spec.Record SR.Model.Layout SR.Model.Estruct
  SR.Model.LayoutValue SR.Model.RecordValue SR.Judge.JLayoutCommon SR.Judge.JEstructCommon.
Open Scope Z_scope.

Definition kind_of_sx (s : sx) : fkind :=
  let u := as_N (nth_sx 2 s) in
  let sg := as_bool (nth_sx 3 s) in
  let m := as_nat (nth_sx 4 s) in
  let n := as_nat (nth_sx 5 s) in
  match as_Z (nth_sx 1 s) with
  | 0 => KPacked u sg m n
  | 1 => KZoned sg m n
  | 2 => KBinary u sg m n
  | _ => KText m
  end.

Definition kinds_of (l : list sx) : kinds :=
  fun i => match find (fun s => N.eqb (as_N (nth_sx 0 s)) i) l with
           | Some s => kind_of_sx s
           | None => KText 0
           end.

Definition fval_of_sx (s : sx) : fval :=
  match as_Z (nth_sx 0 s) with
  | 0 => FNum (as_Ns (nth_sx 1 s)) (as_N (nth_sx 2 s))
  | 1 => FInt (as_Z (nth_sx 1 s))
  | _ => FTxt (as_Ns (nth_sx 1 s))
  end.

Definition step_eqb (a b : step) : bool :=
  match a, b with
  | PName x, PName y => N.eqb x y
  | PIndex x, PIndex y => Nat.eqb x y
  | _, _ => false
  end.
Fixpoint path_eqb (a b : list step) : bool :=
  match a, b with
  | [], [] => true
  | x :: a', y :: b' => step_eqb x y && path_eqb a' b'
  | _, _ => false
  end.

(* an unassigned path gets a value no kind accepts, so record_ok fails *)
Definition vals_of (l : list sx) : assignment :=
  fun p => match find (fun s => path_eqb (path_of (nth_sx 0 s)) p) l with
           | Some s => fval_of_sx (nth_sx 1 s)
           | None => FNum [99%N] 0%N
           end.

Fixpoint pv_matches (s : sx) (v : pv pyval) {struct v} : bool :=
  match v with
  | PAtom x =>
      (as_Z (nth_sx 0 s) =? 0)
      && match pyval_of_sx (nth_sx 1 s) with Some y => pyval_eqb y x | None => false end
  | PList l =>
      (as_Z (nth_sx 0 s) =? 1)
      && (fix go (l : list (pv pyval)) (ss : list sx) {struct l} : bool :=
            match l, ss with
            | [], [] => true
            | x :: l', s' :: ss' => pv_matches s' x && go l' ss'
            | _, _ => false
            end) l (as_list (nth_sx 1 s))
  | PDict d =>
      (as_Z (nth_sx 0 s) =? 2)
      && (fix go (d : list (key * pv pyval)) (ss : list sx) {struct d} : bool :=
            match d, ss with
            | [], [] => true
            | (k, x) :: d', s' :: ss' =>
                sx_eqb (nth_sx 0 s') (sx_of_key k) && pv_matches (nth_sx 1 s') x && go d' ss'
            | _, _ => false
            end) d (as_list (nth_sx 1 s))
  end.

Definition is_val (o : sx) : bool := as_Z (nth_sx 0 o) =? 0.
Definition is_err (o : sx) (code : Z) : bool := (as_Z (nth_sx 0 o) =? 1) && (as_Z (nth_sx 1 o) =? code).

Definition val_agrees (o : sx) (m : vres (pv pyval)) : bool :=
  match m with
  | Some (Ok v) => is_val o && pv_matches (nth_sx 1 o) v
  | Some (Err e) => is_err o (exn_code e)
  | None => is_err o 5
  end.

Definition find_obs (obs : list sx) (p : list step) : option sx :=
  match find (fun po => path_eqb (path_of (nth_sx 0 po)) p) obs with
  | Some po => Some (nth_sx 1 po)
  | None => None
  end.

Fixpoint nodupN (l : list N) : bool :=
  match l with [] => true | x :: t => negb (existsb (N.eqb x) t) && nodupN t end.

Fixpoint kind_tags (kd : kinds) (x : item) : list Z :=
  match x with
  | Elem i _ _ _ => [match kd i with KPacked _ _ _ _ => 0 | KZoned _ _ _ => 1 | KBinary _ _ _ _ => 2 | KText _ => 3 end]
  | Group _ _ _ ks => kids_tags kd ks
  end
with kids_tags (kd : kinds) (ks : items) : list Z :=
  match ks with INil => [] | ICons x xs => kind_tags kd x ++ kids_tags kd xs end.

Fixpoint odo_counters (x : item) : list id :=
  (match item_oc x with Odo c => [c] | _ => [] end)
  ++ match x with Elem _ _ _ _ => [] | Group _ _ _ ks => kids_counters ks end
with kids_counters (ks : items) : list id :=
  match ks with INil => [] | ICons x xs => odo_counters x ++ kids_counters xs end.

Definition judge (c : sx) : sx :=
  let t := item_of (nth_sx 0 c) in
  let kd := kinds_of (as_list (nth_sx 1 c)) in
  let vals := vals_of (as_list (nth_sx 2 c)) in
  let sent := as_Ns (nth_sx 3 c) in
  let schema := nth_sx 4 c in
  let top := nth_sx 5 c in
  let obs := as_list (nth_sx 6 c) in
  let counters := as_list (nth_sx 7 c) in
  let e : env := env_of (L counters) in
  let r := spec_record kd vals e t in
  let targets := storage_paths e t in
  (* hypotheses of C01b_stored_is_read (the shapes outside C01's wf by their trigger predicates), the record sent is the
     specification's record, every elementary occurrence was observed *)
  let hyp :=
    record_ok kd vals e t && nodupN (all_ids t)
    && negb (odo_in_table t || build_raises t || occurs_elem_in_union t || dup_union_name t)
    && forallb (fun c => existsb (fun cp => N.eqb (as_N (nth_sx 0 cp)) c) counters) (odo_counters t)
    && forallb (fun cp =>
         let p := path_of (nth_sx 2 cp) in
         own_storage e (VItem t) 0%nat p
         && match elem_at e t p with
            | Some (i, _, _) => N.eqb i (as_N (nth_sx 0 cp)) && (dcount (enc_field (kd i) (vals p)) =? e i)%nat
            | None => false
            end) counters
    && forallb (fun p => own_storage e (VItem t) 0%nat p
                         && match elem_at e t p with Some _ => true | None => false end) targets in
  let complete := forallb (fun p => match find_obs obs p with Some _ => true | None => false end) targets in
  if negb (hyp && list_N_eqb sent r && complete) then
    L [A 9; A 0; L [of_bool hyp; of_bool (list_N_eqb sent r); of_bool complete]] else
  let good_target (p : list step) : bool :=
    match elem_at e t p, find_obs obs p with
    | Some (i, sz, st), Some o =>
        is_val o
        && (as_Z (nth_sx 1 o) =? Z.of_nat st) && (as_Z (nth_sx 2 o) =? Z.of_nat (st + sz))
        && list_N_eqb (as_Ns (nth_sx 3 o)) (enc_field (kd i) (vals p))
        && (let val := nth_sx 4 o in
            is_val val && pv_matches (nth_sx 1 val) (PAtom (py_of (stored (kd i) (vals p)))))
    | _, _ => false
    end in
  let good := forallb good_target targets
              && is_val top && (as_Z (nth_sx 1 top) =? Z.of_nat (extent e t)) in
  (* correspondence with the model *)
  let js := build t in
  let mnav := vnav_of dcount sent js in
  let agree_path (po : sx) : bool :=
    let o := nth_sx 1 po in
    match mnav with
    | Err ex => is_err o (exn_code ex)
    | Ok v0 =>
        match vnav_path dcount sent v0 (wpath (path_of (nth_sx 0 po))) with
        | Ok v =>
            is_val o
            && (as_Z (nth_sx 1 o) =? Z.of_nat (wstart (vn_loc v)))
            && (as_Z (nth_sx 2 o) =? Z.of_nat (wend (vn_loc v)))
            && list_N_eqb (as_Ns (nth_sx 3 o)) (vnav_raw sent v)
            && val_agrees (nth_sx 4 o) (vnav_value sent (field_dec kd) v)
        | Err ex => is_err o (exn_code ex)
        end
    end in
  let schema_agrees := sx_eqb schema (L [A 0; sx_of_js js]) in
  let top_agrees :=
    match mnav with
    | Ok v0 => is_val top && (as_Z (nth_sx 1 top) =? Z.of_nat (wend (vn_loc v0)))
    | Err ex => is_err top (exn_code ex)
    end in
  let agree := schema_agrees && forallb agree_path obs && top_agrees in
  let tags := kind_tags kd t in
  let has (z : Z) := existsb (Z.eqb z) tags in
  let branch := 1 + (if has_redef t then 2 else 0) + (if has_table t then 4 else 0)
                + (if has 0 then 8 else 0) + (if has 1 then 16 else 0) + (if has 2 then 32 else 0)
                + (if has_odo t then 64 else 0) in
  verdict None good agree branch
    (L [of_bool (forallb good_target targets); of_bool (is_val top); of_bool schema_agrees;
        of_bool (forallb agree_path obs); of_bool top_agrees;
        L (map (fun po => nth_sx 0 po) (filter (fun po => negb (agree_path po)) obs))]).
