(* Shared decoding of observations for the codec judges (C02, C04, C18). *)
From Coq Require Import ZArith NArith List Bool.
Import ListNotations.
Require Import SR.Base.Sx SR.Base.Res SR.Base.Dec SR.Model.Estruct.
Open Scope Z_scope.

(* a Python value on the wire: (0 sign coef exp) Decimal | (1 v) int | (2 codepoints) str | (8) other *)
Definition pyval_of_sx (s : sx) : option pyval :=
  match as_Z (nth_sx 0 s) with
  | 0 => Some (VDec (mkdec (as_bool (nth_sx 1 s)) (as_N (nth_sx 2 s)) (as_Z (nth_sx 3 s))))
  | 1 => Some (VInt (as_Z (nth_sx 1 s)))
  | 2 => Some (VStr (as_Ns (nth_sx 1 s)))
  | _ => None
  end.

(* an observed call: (0 value) | (1 exn-code) *)
Inductive obs := OVal (v : pyval) | OErr (code : Z) | OBad.
Definition obs_of_sx (s : sx) : obs :=
  match as_Z (nth_sx 0 s) with
  | 0 => match pyval_of_sx (nth_sx 1 s) with Some v => OVal v | None => OBad end
  | 1 => OErr (as_Z (nth_sx 1 s))
  | _ => OBad
  end.

Definition list_N_eqb (a b : list N) : bool :=
  (length a =? length b)%nat && forallb (fun p => N.eqb (fst p) (snd p)) (combine a b).

Definition pyval_eqb (a b : pyval) : bool :=
  match a, b with
  | VDec x, VDec y => dec_eqb x y
  | VInt x, VInt y => Z.eqb x y
  | VStr x, VStr y => list_N_eqb x y
  | _, _ => false
  end.

Definition obs_matches (o : obs) (m : res pyval) : bool :=
  match o, m with
  | OVal v, Ok w => pyval_eqb v w
  | OErr c, Err e => Z.eqb c (exn_code e)
  | _, _ => false
  end.

Definition sx_of_pyval (v : pyval) : sx :=
  match v with
  | VDec d => L [A 0; of_bool (neg d); of_N (coef d); A (dexp d)]
  | VInt z => L [A 1; A z]
  | VStr s => L [A 2; of_Ns s]
  end.

Definition pic_of (signed m n : sx) : pic := mkpic (as_bool signed) (as_nat m) (as_nat n).
