(* Judge for C03b, the text-layer engine of C03: ties Model/Csv.v and Model/Ndjson.v to CPython's csv / json and to
   the library's CSV and NDJSON unpackers.

   Wire forms
     text      = list of code points;  bytes = list of 0..255
     stop      = (0) the iteration ended | (1 exception-code) it raised
     csvobs    = (((cell ...) ...) stop)        the records delivered, then how the iteration ended
     instance  = (0 ((key value) ...)) a dict whose keys and values are str, in order | (1) any other object
     jsonobs   = ((instance ...) stop)
   Cases
     (0 delim ((cell ...) ...) bytes libobs rawobs)
         a table written by csv.writer(f, delimiter=delim) on a file opened with newline='', the bytes of the file,
         what CSV_Workbook(path, delimiter=delim).unpacker.instance_iter delivers (open_workbook(path) for a comma),
         what csv.reader delivers over the same file opened with newline=''
     (1 ea (name ...) ((cell ...) ...) bytes libobs)
         data rows written as json.dumps(dict(zip(names, row)), ensure_ascii=ea) + LF, the bytes of the file, what
         open_workbook(path).unpacker.instance_iter delivers
     (2 delim text libobs rawobs)       any text as the content of a file (UTF-8), read as in case 0
     (3 delim (line ...) obs)           csv.reader over a list of str
     (4 text libobs)                    any text as the content of a .ndjson file, read as in case 1
   [good]  = the round trip the property needs: inside the domain of the theorems the reader returns what the writer
             was given (cases 0, 1); for the reader-only cases there is nothing but correspondence.
   [agree] = the bytes are the UTF-8 of the model writer's characters, and every observation is what the model
             reader computes from the text of the file.
   [known] = never: finding 2 (K-csv-carriage-return: a cell with a carriage return read through a text-mode open
             without newline='') is repaired by commit aa3b8fc.  The model of the library's reader follows the open call
             of CSVUnpacker.open as the source has it on this run (Csv.lib_reader, Gen/CsvOpenParams.v): on a tree
             without the fix the observation still agrees with the model, but [good] fails on every table that holds a
             carriage return - a VIOLATION with that table as the failing input.
   Answer 9 = malformed case (the bytes are not UTF-8). *)
From Coq Require Import ZArith NArith List Bool Arith.
Import ListNotations.
Require Import SR.Base.Sx SR.Base.Res SR.Model.Utf8.
Require SR.Model.Csv SR.Model.Ndjson.
Open Scope Z_scope.

Definition text := list N.

Fixpoint list_eqb {T} (eqb : T -> T -> bool) (a b : list T) : bool :=
  match a, b with
  | [], [] => true
  | x :: a', y :: b' => eqb x y && list_eqb eqb a' b'
  | _, _ => false
  end.

Definition text_eqb : text -> text -> bool := list_eqb N.eqb.
Definition rows_eqb : list (list text) -> list (list text) -> bool := list_eqb (list_eqb text_eqb).

(* ---------------------------------------------------------------- decoding *)
Definition dec_rows (x : sx) : list (list text) := map (fun r => map as_Ns (as_list r)) (as_list x).

(* stop: None = ended, Some code = raised *)
Definition dec_stop (x : sx) : option Z := if as_Z (nth_sx 0 x) =? 0 then None else Some (as_Z (nth_sx 1 x)).
Definition dec_csvobs (x : sx) : list (list text) * option Z := (dec_rows (nth_sx 0 x), dec_stop (nth_sx 1 x)).

Definition stop_eqb (a : option Z) (b : option exn) : bool :=
  match a, b with
  | None, None => true
  | Some z, Some e => z =? exn_code e
  | _, _ => false
  end.

Definition csvobs_eqb (o : list (list text) * option Z) (m : list (list text) * option exn) : bool :=
  rows_eqb (fst o) (fst m) && stop_eqb (snd o) (snd m).

Definition dec_instance (x : sx) : option Ndjson.doc :=
  if as_Z (nth_sx 0 x) =? 0
  then Some (map (fun p => (as_Ns (nth_sx 0 p), as_Ns (nth_sx 1 p))) (as_list (nth_sx 1 x)))
  else None.
Definition dec_jsonobs (x : sx) : list (option Ndjson.doc) * option Z :=
  (map dec_instance (as_list (nth_sx 0 x)), dec_stop (nth_sx 1 x)).

Definition pair_eqb (a b : text * text) : bool := text_eqb (fst a) (fst b) && text_eqb (snd a) (snd b).
Definition doc_eqb : Ndjson.doc -> Ndjson.doc -> bool := list_eqb pair_eqb.
Definition inst_eqb (o : option Ndjson.doc) (m : Ndjson.doc) : bool :=
  match o with Some d => doc_eqb d m | None => false end.

(* observation against the model's run: every document the model delivers, and its end; after Beyond nothing is claimed *)
Fixpoint prefix_eqb (o : list (option Ndjson.doc)) (m : list Ndjson.doc) : bool :=
  match m with
  | [] => true
  | d :: m' => match o with x :: o' => inst_eqb x d && prefix_eqb o' m' | [] => false end
  end.

Definition jsonobs_agree (o : list (option Ndjson.doc) * option Z) (m : list Ndjson.doc * Ndjson.outcome unit) : bool :=
  match snd m with
  | Ndjson.Done _ => (length (fst o) =? length (fst m))%nat && prefix_eqb (fst o) (fst m) && stop_eqb (snd o) None
  | Ndjson.Raise e => (length (fst o) =? length (fst m))%nat && prefix_eqb (fst o) (fst m) && stop_eqb (snd o) (Some e)
  | Ndjson.Beyond => prefix_eqb (fst o) (fst m)
  | Ndjson.Fuel => false
  end.

Definition has (p : N -> bool) (rows : list (list text)) : bool := existsb (existsb (existsb p)) rows.

(* ---------------------------------------------------------------- case 0: a table through csv *)
Definition judge_csv_table (c : sx) : sx :=
  let d := as_N (nth_sx 1 c) in
  let rows := dec_rows (nth_sx 2 c) in
  let bytes := as_Ns (nth_sx 3 c) in
  let lib := dec_csvobs (nth_sx 4 c) in
  let raw := dec_csvobs (nth_sx 5 c) in
  match utf8_decode (length bytes) bytes with
  | None => L [A 9; A 0; L []]
  | Some file =>
      let written := list_eqb N.eqb bytes (utf8 (Csv.csv_write d rows)) in
      let m_lib := Csv.lib_reader d file in
      let m_raw := Csv.csv_reader_raw d file in
      let a_lib := csvobs_eqb lib m_lib in
      let a_raw := csvobs_eqb raw m_raw in
      let in_dom := Csv.delim_ok d && Csv.table_ok_raw rows in
      let g_lib := negb in_dom || csvobs_eqb lib (rows, None) in
      let g_raw := negb in_dom || csvobs_eqb raw (rows, None) in
      let br := match rows with
                | [] => 0
                | _ => if negb (Csv.table_ok_raw rows) then 4
                       else if has Csv.is_nl rows then 3
                       else if existsb (existsb (Csv.needs_quotes d)) rows then 2 else 1
                end in
      verdict None (g_lib && g_raw) (written && a_lib && a_raw) br
              (L [of_bool written; of_bool a_lib; of_bool a_raw; of_bool g_lib; of_bool g_raw])
  end.

(* ---------------------------------------------------------------- case 1: a table through NDJSON *)
(* dict(zip(names, row)) *)
Definition dict_of (names row : list text) : Ndjson.doc :=
  fold_left (fun a kv => Ndjson.dict_set a (fst kv) (snd kv)) (combine names row) [].

Definition judge_ndjson_table (c : sx) : sx :=
  let ea := as_bool (nth_sx 1 c) in
  let names := map as_Ns (as_list (nth_sx 2 c)) in
  let rows := dec_rows (nth_sx 3 c) in
  let bytes := as_Ns (nth_sx 4 c) in
  let lib := dec_jsonobs (nth_sx 5 c) in
  let docs := map (dict_of names) rows in
  match utf8_decode (length bytes) bytes with
  | None => L [A 9; A 30; L []]
  | Some file =>
      let written := list_eqb N.eqb bytes (utf8 (Ndjson.ndjson_write ea docs)) in
      let a_lib := jsonobs_agree lib (Ndjson.ndjson_reader file) in
      let in_dom := forallb (Ndjson.doc_ok ea) docs in
      let g_lib := negb in_dom || jsonobs_agree lib (docs, Ndjson.Done tt) in
      let non_ascii := existsb (existsb (N.ltb 126)) names || has (N.ltb 126) rows in
      let br := match rows with [] => 30 | _ => if non_ascii then 32 else 31 end in
      verdict None g_lib (written && a_lib) br (L [of_bool written; of_bool a_lib; of_bool g_lib])
  end.

(* ---------------------------------------------------------------- cases 2, 3: csv.reader on any text *)
Definition judge_csv_text (c : sx) : sx :=
  let d := as_N (nth_sx 1 c) in
  let file := as_Ns (nth_sx 2 c) in
  let a_lib := csvobs_eqb (dec_csvobs (nth_sx 3 c)) (Csv.lib_reader d file) in
  let a_raw := csvobs_eqb (dec_csvobs (nth_sx 4 c)) (Csv.csv_reader_raw d file) in
  let br := match file with [] => 10 | _ => if existsb (N.eqb Csv.QUOTE) file then 12 else 11 end in
  verdict None true (a_lib && a_raw) br (L [of_bool a_lib; of_bool a_raw]).

Definition judge_csv_lines (c : sx) : sx :=
  let d := as_N (nth_sx 1 c) in
  let lines := map as_Ns (as_list (nth_sx 2 c)) in
  let m := Csv.read_records d Csv.reset lines in
  let a := csvobs_eqb (dec_csvobs (nth_sx 3 c)) m in
  let br := match lines with [] => 20 | _ => match snd m with None => 21 | Some _ => 22 end end in
  verdict None true a br (L [of_bool a]).

(* ---------------------------------------------------------------- case 4: the NDJSON reader on any text *)
Definition judge_ndjson_text (c : sx) : sx :=
  let file := as_Ns (nth_sx 1 c) in
  let m := Ndjson.ndjson_reader file in
  let a := jsonobs_agree (dec_jsonobs (nth_sx 2 c)) m in
  let br := match snd m with
            | Ndjson.Beyond => match fst m with [] => 40 | _ => 43 end
            | Ndjson.Done _ => match fst m with [] => 40 | _ => 41 end
            | Ndjson.Raise _ => 42
            | Ndjson.Fuel => 49
            end in
  verdict None true a br (L [of_bool a]).

Definition judge (c : sx) : sx :=
  let kind := as_Z (nth_sx 0 c) in
  if kind =? 0 then judge_csv_table c
  else if kind =? 1 then judge_ndjson_table c
  else if kind =? 2 then judge_csv_text c
  else if kind =? 3 then judge_csv_lines c
  else if kind =? 4 then judge_ndjson_text c
  else L [A 9; A (-1); L []].
