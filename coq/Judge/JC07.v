(* Judge for C07.
   case = (text intended obs_sentences obs_forest obs_schemas obs_raw)
     text          code points of the copybook
     intended      entries the generator printed: (level name? filler? redefines? pic occ compact-text indexed value?)
                   level = the two characters; x? = () or (string); pic/occ/indexed = 0/1;
                   value? = the VALUE literal as written, quotes included;
                   a tenth field 0/1: the level number was printed with one digit (5 for 05)
     obs_sentences (0 entries) | (1 exn): what dde_sentences + clause_dict returned (same shape, indexed = 0)
     obs_forest    (0 trees) | (1 exn): structure(...), tree = (level name unique_name redefines? compact-text (kids))
     obs_schemas   (0 nodes) | (1 exn): list(schema_iter(...)), node = (kind title? anchor? cobol? ((key node) ...))
     obs_raw       (0 ((level text) ...)) | (1 exn): dde_sentences(reference_format(text)) before clause_dict,
                   text = the words of the clause text joined by single blanks
   good  = Layer A returned the intended entries, the observed forest is the one the specification
           (Spec/Dde.v) demands of the intended entries and equals the model's, the schemas equal
           the model's, and a well-formed copybook ends in no error and its schemas define every kept
           entry exactly once, in full, nested as the forest (skel = skel_tree).
   agree = forest and schemas equal the model run on the OBSERVED sentences.
   known = the trigger of a known finding holds (for finding 5 also: the observed sentences are the
           intended ones with exactly the clause texts of the triggering entries cut at their first
           period-white-space pair; for finding 6 also: the raw sentences are what the text-layer model
           returns on the printed text; for finding 7 also: structure raised ValueError; for finding 8
           also: the observed forest's first tree is rooted at the first printed entry, or structure
           raised ValueError because a REDEFINES clause below that entry finds no unique sibling there
           while the copybook without its 66/77/88 entries has none unresolved).
   For a copybook whose FIRST entry has level 66, 77 or 88 (finding 8) good demands what the property
   says - level 66/77/88 entries contribute nothing, the first one included: the forest and the schemas
   are those of the copybook without its 66/77/88 entries (none at all, or an error, when nothing else
   is left), the forest is the one the specification demands of those entries, and a well-formed rest
   ends in no error.  The code keeps the first entry as a tree whatever its level.
   For a copybook whose REDEFINES targets name exactly one earlier sibling up to letter case but not
   exactly (finding 7), good demands instead that nothing raises, that the forest is the one the
   specification demands and that the schemas define every kept entry once, nested as the forest
   (compared without regard to letter case). *)
From Coq Require Import ZArith NArith List Bool Arith.
Import ListNotations.
Require Import SR.Base.Sx SR.Base.Res SR.Spec.Dde SR.Model.Structure.
Require SR.Model.RefFormat.
Open Scope Z_scope.

(* ---------------------------------------------------------------- decoding *)
Definition as_str (s : sx) : str := as_Ns s.
Definition as_optstr (s : sx) : option str :=
  match as_list s with [] => None | x :: _ => Some (as_str x) end.
Definition as_lvl (s : sx) : lvl :=
  match as_Ns s with [a; b] => (a, b) | _ => (0%N, 0%N) end.

Definition entry_of_sx (s : sx) : entry :=
  {| elv := as_lvl (nth_sx 0 s); ename := as_optstr (nth_sx 1 s); efill := as_optstr (nth_sx 2 s);
     eredef := as_optstr (nth_sx 3 s); epic := as_bool (nth_sx 4 s); eocc := as_bool (nth_sx 5 s);
     etext := as_str (nth_sx 6 s) |}.
Definition indexed_of_sx (s : sx) : bool := as_bool (nth_sx 7 s).
Definition value_of_sx (s : sx) : option str := as_optstr (nth_sx 8 s).
Definition onedigit_of_sx (s : sx) : bool := as_bool (nth_sx 9 s).

Definition optstr_eqb (a b : option str) : bool :=
  match a, b with
  | None, None => true
  | Some x, Some y => str_eqb x y
  | _, _ => false
  end.

Definition entry_eqb (a b : entry) : bool :=
  lvl_eqb (elv a) (elv b) && optstr_eqb (ename a) (ename b) && optstr_eqb (efill a) (efill b)
  && optstr_eqb (eredef a) (eredef b) && Bool.eqb (epic a) (epic b) && Bool.eqb (eocc a) (eocc b)
  && str_eqb (etext a) (etext b).

Fixpoint entries_eqb (a b : list entry) : bool :=
  match a, b with
  | [], [] => true
  | x :: a', y :: b' => entry_eqb x y && entries_eqb a' b'
  | _, _ => false
  end.

(* Layer A against the printed entries.  An entry of level 66, 77 or 88 that is not the first one
   contributes nothing but its turn in the FILLER numbering, so only level, text and
   named-or-FILLER are compared for it (66 x RENAMES y is named y by the clause pattern). *)
Definition is_skip_level (e : entry) : bool :=
  lvl_eqb (elv e) L66 || lvl_eqb (elv e) L77 || lvl_eqb (elv e) L88.
Definition entry_sim (x y : entry) : bool :=
  if is_skip_level x
  then lvl_eqb (elv x) (elv y) && str_eqb (etext x) (etext y) && Bool.eqb (is_filler x) (is_filler y)
  else entry_eqb x y.
Fixpoint entries_sim_tail (a b : list entry) : bool :=
  match a, b with
  | [], [] => true
  | x :: a', y :: b' => entry_sim x y && entries_sim_tail a' b'
  | _, _ => false
  end.
(* the first entry is compared in full unless it is itself a 66/77/88 entry (known finding 8: it is
   kept as a node; what the property wants of it is that it contributes nothing, like the later ones) *)
Definition entries_sim (a b : list entry) : bool :=
  match a, b with
  | [], [] => true
  | x :: a', y :: b' => (if is_skip_level x then entry_sim x y else entry_eqb x y) && entries_sim_tail a' b'
  | _, _ => false
  end.

(* ---------------------------------------------------------------- encoding the model's answers *)
Definition sx_str (s : str) : sx := of_Ns s.
Definition sx_optstr (o : option str) : sx := match o with None => L [] | Some s => L [sx_str s] end.

Fixpoint sx_tree (t : tree) : sx :=
  match t with
  | TNode d b kids =>
      L [sx_str [fst (dlv d); snd (dlv d)]; sx_str (dde_name (de d)); sx_str (du d);
         sx_optstr (eff_redef t); sx_str (etext (de d)); L (map sx_tree kids)]
  end.

Fixpoint sx_snode (s : snode) : sx :=
  match s with
  | SN k t a c props =>
      L [of_N k; sx_optstr t; sx_optstr a; sx_optstr c;
         L (map (fun p => L [sx_str (fst p); sx_snode (snd p)]) props)]
  end.

Definition sx_forest (r : res (list tree)) : sx := sx_of_res (fun f => L (map sx_tree f)) r.
Definition sx_schemas (r : res (list snode)) : sx := sx_of_res (fun f => L (map sx_snode f)) r.

(* the observed forest read back as levels only, for the specification's predicate *)
Fixpoint obs_tree (s : sx) : tree :=
  match s with
  | L (lv :: nm :: un :: rd :: tx :: L kids :: _) =>
      TNode {| de := {| elv := as_lvl lv; ename := Some (as_str nm); efill := None; eredef := None;
                        epic := false; eocc := false; etext := as_str tx |};
               du := as_str un |} false (map obs_tree kids)
  | _ => TNode {| de := {| elv := (0%N, 0%N); ename := None; efill := None; eredef := None;
                           epic := false; eocc := false; etext := [] |}; du := [] |} false []
  end.

(* ---------------------------------------------------------------- predicates *)
Fixpoint nodup_str (l : list str) : bool :=
  match l with
  | [] => true
  | x :: r => negb (existsb (str_eqb x) r) && nodup_str r
  end.

Fixpoint is_prefix (p s : str) : bool :=
  match p, s with
  | [], _ => true
  | x :: p', y :: s' => (x =? y)%N && is_prefix p' s'
  | _, [] => false
  end.

(* all unique names of a tree pairwise distinct (only used for the branch id) *)
Definition all_distinct (f : list tree) : bool :=
  forallb (fun t => nodup_str (map du (preorder t))) f.

(* names of a well-formed record: no item is named like one of its ancestors (qualification would be
   ambiguous), siblings have different names, no name starts with REDEFINES-.  The same name under
   different parents is fine. *)
Fixpoint names_wf_t (anc : list str) (t : tree) : bool :=
  match t with
  | TNode d _ kids =>
      negb (existsb (str_eqb (du d)) anc) && negb (is_prefix REDEFINES_dash (du d))
      && nodup_str (map (fun k => du (troot k)) kids)
      && forallb (names_wf_t (du d :: anc)) kids
  end.

(* The entries a schema defines in full, nested as the schema nests them: (title cobol (kids)).
   A ref placeholder stands for the oneOf alternative OF THE SAME OBJECT that carries its anchor
   (marker 404 when there is none; marker 405 when the object holds a different number of
   alternatives than placeholders); the oneOf property itself and an untitled node (the inner item
   of an elementary OCCURS) contribute nothing. *)
Definition alt_anchor (w : snode) : option str :=
  match w with
  | SN _ _ (Some a) _ _ => Some a
  | SN _ _ None _ ((_, SN _ _ (Some a) _ _) :: _) => Some a
  | _ => None
  end.

Fixpoint skel (s : snode) : sx :=
  match s with
  | SN _ t _ c props =>
      let alts : list (option str * sx) :=
        flat_map (fun p => match p with
                           | (_, SN kk _ _ _ a) =>
                               if (kk =? 3)%N then map (fun q => match q with (_, w) => (alt_anchor w, skel w) end) a
                               else []
                           end) props in
      let refs := filter (fun p => match p with (_, SN kk _ _ _ _) => (kk =? 4)%N end) props in
      L [sx_optstr t; sx_optstr c;
         L (flat_map (fun p => match p with
                               | (_, v) =>
                                   match v with
                                   | SN kk ttl anc _ _ =>
                                       if (kk =? 3)%N then []
                                       else if (kk =? 4)%N then
                                         match anc with
                                         | Some (_ :: u) =>
                                             match find (fun x => optstr_eqb (fst x) (Some u)) alts with
                                             | Some x => [snd x]
                                             | None => [A 404]
                                             end
                                         | _ => [A 404]
                                         end
                                       else match ttl with None => [] | Some _ => [skel v] end
                                   end
                               end) props
            ++ (if Nat.eqb (length alts) (length refs) then [] else [A 405]))]
  end.

(* what the property demands of it: one node per kept entry, nested as the forest, titled with the
   data name and carrying the clause text *)
Fixpoint skel_tree (t : tree) : sx :=
  match t with
  | TNode d _ kids =>
      L [sx_optstr (Some (dde_name (de d))); sx_optstr (Some ([fst (dlv d); snd (dlv d); 32%N] ++ etext (de d)));
         L (map skel_tree kids)]
  end.

Fixpoint snode_of_sx (s : sx) : snode :=
  match s with
  | L (k :: t :: a :: c :: L props :: _) =>
      SN (as_N k) (as_optstr t) (as_optstr a) (as_optstr c)
         (map (fun p => match p with
                        | L (key :: v :: _) => (as_str key, snode_of_sx v)
                        | _ => ([], SN 9 None None None [])
                        end) props)
  | _ => SN 9 None None None []
  end.

(* a node carrying a redefines clause under an OCCURS group (known finding 2) *)
Fixpoint redef_in_occurs (t : tree) : bool :=
  match t with
  | TNode d _ kids =>
      (eocc (de d) && negb (epic (de d)) && existsb (fun k => match eff_redef k with Some _ => true | None => false end) kids)
      || existsb redef_in_occurs kids
  end.

(* well-formed: leaves have a picture, groups do not *)
Fixpoint wf_tree (t : tree) : bool :=
  match t with
  | TNode d _ kids =>
      match kids with
      | [] => epic (de d)
      | _ => negb (epic (de d)) && forallb wf_tree kids
      end
  end.

Definition level_ok (e : entry) : bool :=
  two_digits (elv e) && negb (lvl_num (elv e) =? 0)%N.

Definition wf_copybook (l : list entry) (f : list tree) : bool :=
  match l with
  | [] => false
  | e :: _ => kept_level (lvl_num (elv e))
  end && forallb level_ok l && forallb wf_tree f && forallb (names_wf_t []) f.

(* reserved words the clause pattern matches at the start of a longer data name (known finding 3) *)
Definition kw (s : list Z) : str := map Z.to_N s.
Definition keyword_prefixes : list str :=
  [kw [67;79;77;80]; kw [66;73;78;65;82;89]; kw [68;73;83;80;76;65;89]; kw [83;89;78;67];
   kw [69;88;84;69;82;78;65;76]; kw [71;76;79;66;65;76]; kw [70;73;76;76;69;82];
   kw [80;65;67;75;69;68;45;68;69;67;73;77;65;76]].

Definition upper (c : N) : N := if ((97 <=? c) && (c <=? 122))%N then (c - 32)%N else c.

Definition keyword_prefixed (e : entry) : bool :=
  match ename e with
  | Some n => existsb (fun p => is_prefix p (map upper n)) keyword_prefixes
  | None => false
  end.

(* the text does not end in a line feed, or its last line reaches column 72 (known finding 1) *)
Fixpoint last_line_len (t : list N) (acc : nat) : nat :=
  match t with
  | [] => acc
  | c :: r => if (c =? 10)%N then (match r with [] => acc | _ => last_line_len r 0 end)
              else last_line_len r (S acc)
  end.
Definition ends_badly (t : list N) : bool :=
  negb (match rev t with c :: _ => (c =? 10)%N | [] => false end) || (72 <=? last_line_len t 0)%nat.

Definition res_ok_sx (o : sx) : bool := Z.eqb (as_Z (nth_sx 0 o)) 0.

(* Known finding 5: the sentence pattern of dde_sentences ends an entry at the first period that is
   followed by white space, also inside a VALUE literal.
   Trigger: some VALUE literal contains a period followed by a white-space character (the class the
   pattern's backslash-s accepts, Model/RefFormat.v is_ws). *)
Fixpoint has_period_ws (s : str) : bool :=
  match s with
  | [] => false
  | c :: t => ((c =? 46)%N && match t with w :: _ => SR.Model.RefFormat.is_ws w | [] => false end) || has_period_ws t
  end.
Definition value_period_ws (s : sx) : bool :=
  match value_of_sx s with Some v => has_period_ws v | None => false end.
(* the text before the first period-white-space pair *)
Fixpoint cut_term (s : str) : str :=
  match s with
  | [] => []
  | c :: t => if (c =? 46)%N && match t with w :: _ => SR.Model.RefFormat.is_ws w | [] => false end then []
              else c :: cut_term t
  end.
Definition with_text (e : entry) (t : str) : entry :=
  {| elv := elv e; ename := ename e; efill := efill e; eredef := eredef e; epic := epic e; eocc := eocc e; etext := t |}.
(* what finding 5 makes of a printed entry: the text of a triggering entry is cut, nothing else changes *)
Definition truncated_entry (s : sx) : entry :=
  let e := entry_of_sx s in
  if value_period_ws s then with_text e (cut_term (etext e)) else e.

(* Known finding 6: a level number written with one digit.  The sentence pattern wants two adjacent
   digits, so the entry is not seen as an entry; what comes back instead depends on the digits that
   follow, and is what the text-layer model (Model/RefFormat.v) returns on the printed text. *)
Fixpoint lines_go (cur t : list N) : list (list N) :=
  match t with
  | [] => match cur with [] => [] | _ => [rev cur] end
  | c :: r => if (c =? 10)%N then rev (c :: cur) :: lines_go [] r else lines_go (c :: cur) r
  end.
(* the lines a text stream over the text yields: split behind every line feed *)
Definition text_lines (t : list N) : list (list N) := lines_go [] t.
Definition model_sentences (text : list N) : res (list (list N * list N)) :=
  match SR.Model.RefFormat.reference_format (text_lines text) [] with
  | Ok out => Ok (map (fun p => (fst p, SR.Model.RefFormat.compact (snd p))) (SR.Model.RefFormat.dde_sentences out))
  | Err e => Err e
  end.
Definition sx_sentences (r : res (list (list N * list N))) : sx :=
  sx_of_res (fun l => L (map (fun p => L [of_Ns (fst p); of_Ns (snd p)]) l)) r.

(* Known finding 7: names are compared exactly.  The copybook as the specification sees it, as written
   and with every data name and REDEFINES target in upper case. *)
Definition kept_list (l : list entry) : list dde :=
  match mk_ddes 0 l with [] => [] | d :: r => d :: filter keep r end.
Definition espec (k : list dde) : list (N * list N * option (list N)) :=
  map (fun d => (lvl_num (dlv d), dde_name (de d), eredef (de d))) k.
Definition espec_up (k : list dde) : list (N * list N * option (list N)) :=
  map (fun d => (lvl_num (dlv d), map upper (dde_name (de d)), option_map (map upper) (eredef (de d)))) k.
(* every REDEFINES target names exactly one earlier sibling when letter case is ignored, but not as
   written: some target differs from its sibling's name in letter case only, and no sibling has
   exactly that spelling (two exact matches would be two matches in upper case as well) *)
Definition case_only_redefines (l : list entry) : bool :=
  let k := kept_list l in redefines_ok (espec_up k) && negb (redefines_ok (espec k)).
Definition up_entry (e : entry) : entry :=
  {| elv := elv e; ename := option_map (map upper) (ename e); efill := option_map (map upper) (efill e);
     eredef := option_map (map upper) (eredef e); epic := epic e; eocc := eocc e; etext := etext e |}.
Fixpoint sx_upper (s : sx) : sx :=
  match s with
  | A z => if (97 <=? z) && (z <=? 122) then A (z - 32) else A z
  | L l => L (map sx_upper l)
  end.

Definition spec_holds (kept : list dde) (obs_f : list tree) : bool :=
  let pre := preorder_f obs_f in
  let K := map (fun d => lvl_num (dlv d)) kept in
  entries_eqb (map (fun d => {| elv := dlv d; ename := Some (dde_name (de d)); efill := None; eredef := None;
                                 epic := false; eocc := false; etext := etext (de d) |}) kept)
              (map de pre)
  && sx_eqb (L (map (fun d => sx_str (du d)) kept)) (L (map (fun d => sx_str (du d)) pre))
  && sx_eqb (L (map (fun o => match o with None => L [] | Some i => L [of_nat i] end) (parents obs_f)))
            (L (map (fun o => match o with None => L [] | Some i => L [of_nat i] end) (spec_parents K))).

(* Known finding 8: the first entry is a node whatever its level.
   Trigger: the first printed entry has level 66, 77 or 88.  The finding's own behaviour: structure
   returned and the first tree of the observed forest is rooted at that entry (same level, same text). *)
Definition first_special (l : list entry) : bool :=
  match l with e :: _ => is_skip_level e | [] => false end.
Definition first_root_is (e : entry) (oforest : sx) : bool :=
  match as_list (nth_sx 1 oforest) with
  | t :: _ => lvl_eqb (as_lvl (nth_sx 0 t)) (elv e) && str_eqb (as_str (nth_sx 4 t)) (etext e)
  | [] => false
  end.
(* the DDE objects the property wants in the forest: every entry of level other than 66/77/88
   (the numbering of generated names is that of the whole copybook, as for later 66/77/88 entries) *)
Definition wanted_ddes (l : list entry) : list dde :=
  filter (fun d => negb (is_skip_level (de d))) (mk_ddes 0 l).

Definition judge (c : sx) : sx :=
  let text := as_Ns (nth_sx 0 c) in
  let isx := as_list (nth_sx 1 c) in
  let intended := map entry_of_sx isx in
  let osent := nth_sx 2 c in
  let oforest := nth_sx 3 c in
  let oschema := nth_sx 4 c in
  let observed := map entry_of_sx (as_list (nth_sx 1 osent)) in
  (* model on the intended entries *)
  let mf := structure intended in
  let ms := schemas intended in
  let mforest := match mf with Ok f => f | Err _ => [] end in
  let dom := all_distinct mforest in
  let layerA := res_ok_sx osent && entries_sim intended observed in
  let forest_ok := sx_eqb oforest (sx_forest mf) in
  let spec_ok :=
    match mf with
    | Err _ => true
    | Ok _ =>
        match mk_ddes 0 intended with
        | [] => false
        | d :: r => res_ok_sx oforest
                    && spec_holds (d :: filter keep r) (map obs_tree (as_list (nth_sx 1 oforest)))
        end
    end in
  let schema_ok := sx_eqb oschema (sx_schemas ms) in
  let wf := is_ok mf && wf_copybook intended mforest in
  let wf_ok :=
    if wf then res_ok_sx oforest && res_ok_sx oschema
               && sx_eqb (L (map (fun x => skel (snode_of_sx x)) (as_list (nth_sx 1 oschema))))
                         (L (map skel_tree mforest))
    else true in
  (* finding 7: well-formed up to letter case *)
  let k7 := case_only_redefines intended in
  let nf := match structure (map up_entry intended) with Ok f => f | Err _ => [] end in
  let good7 :=
    res_ok_sx oforest && res_ok_sx oschema
    && spec_holds (kept_list intended) (map obs_tree (as_list (nth_sx 1 oforest)))
    && (if wf_copybook (map up_entry intended) nf
        then sx_eqb (sx_upper (L (map (fun x => skel (snode_of_sx x)) (as_list (nth_sx 1 oschema)))))
                    (sx_upper (L (map skel_tree nf)))
        else true) in
  (* finding 8: the copybook without its 66/77/88 entries, the first one included *)
  let k8 := first_special intended in
  let K := wanted_ddes intended in
  let want_f : res (list tree) := match K with [] => Ok [] | _ => structure_ddes K end in
  let want_s : res (list snode) := match want_f with Ok f => build_all f | Err e => Err e end in
  let wforest := match want_f with Ok f => f | Err _ => [] end in
  let good8 :=
    match K with
    | [] => (negb (res_ok_sx oforest) || sx_eqb oforest (sx_forest (Ok [])))
            && (negb (res_ok_sx oschema) || sx_eqb oschema (sx_schemas (Ok [])))
    | _ :: _ =>
        sx_eqb oforest (sx_forest want_f) && sx_eqb oschema (sx_schemas want_s)
        && (match want_f with
            | Err _ => true
            | Ok _ => res_ok_sx oforest && spec_holds K (map obs_tree (as_list (nth_sx 1 oforest)))
            end)
        && (if is_ok want_f && wf_copybook (map de K) wforest
            then res_ok_sx oforest && res_ok_sx oschema
                 && sx_eqb (L (map (fun x => skel (snode_of_sx x)) (as_list (nth_sx 1 oschema))))
                           (L (map skel_tree wforest))
            else true)
    end in
  (* ... or that entry is a PARENT under which a REDEFINES clause finds no unique sibling, while without the
     66/77/88 entries every clause does (Spec/Dde.v redefines_ok): structure raised ValueError *)
  let k8_raise :=
    sx_eqb oforest (sx_forest (Err ValueError))
    && negb (redefines_ok (espec (kept_list intended))) && redefines_ok (espec K) in
  let good := layerA && (if k8 then good8 else if k7 then good7 else forest_ok && spec_ok && schema_ok && wf_ok) in
  (* model on the observed sentences *)
  let agree :=
    if res_ok_sx osent then
      sx_eqb oforest (sx_forest (structure observed)) && sx_eqb oschema (sx_schemas (schemas observed))
    else sx_eqb oforest osent && sx_eqb oschema osent in
  let oraw := nth_sx 5 c in
  let known :=
    if ends_badly text then Some 1
    else if existsb keyword_prefixed intended then Some 3
    else if existsb indexed_of_sx isx then Some 4
    else if existsb redef_in_occurs mforest then Some 2
    else if existsb value_period_ws isx
         then (if res_ok_sx osent && entries_sim (map truncated_entry isx) observed then Some 5 else None)
    else if existsb onedigit_of_sx isx
         then (if sx_eqb oraw (sx_sentences (model_sentences text)) then Some 6 else None)
    else if k8
         (* a repaired forest (good) differs from the model, which keeps the first entry: still the known family, no finding *)
         then (if good
                  || (res_ok_sx oforest && match intended with e :: _ => first_root_is e oforest | [] => false end)
                  || k8_raise
               then Some 8 else None)
    else if k7
         (* a repaired tree (good) differs from the model, which raises: still the known family, no finding *)
         then (if good || sx_eqb oforest (sx_forest (Err ValueError)) then Some 7 else None)
    else None in
  let branch :=
    (match intended with
     | [] | [_] => 0
     | _ => match mf with
            | Err _ => 3
            | Ok f => match ms with
                      | Err _ => 4
                      | Ok _ => if existsb (fun e => match eredef e with Some _ => true | None => false end) intended
                                then 2 else 1
                      end
            end
     end) + (if dom then 0 else 10) in
  verdict known good agree branch
    (L [of_bool layerA; of_bool forest_ok; of_bool spec_ok; of_bool schema_ok; of_bool wf_ok;
        sx_forest mf; sx_schemas ms; of_bool k7; of_bool k8]).
