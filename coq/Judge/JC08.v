(* Judge for C08.  Cases:
   (1 gen usage pic text val buffer emitted nav pad)        one elementary item, first in its record
        gen      0 JSONSchemaMaker (schema_iter), 1 JSONSchemaMakerExtendedVocabulary
        pic      (0 signed m n rep_int rep_frac) | (1 alpha k rep)
        text     the PICTURE string handed to the implementation; must BE pic_text pic
        val      (0) none | (1 digits zone) zoned | (2 digits sign) packed | (3 w v) binary | (4) text bytes;
                 buffer must BE the specification's encoding (a valid record for the item)
        emitted  (0 (type contentEncoding conversion minLength maxLength)) | (1 exn)     codes: Spec/SchemaTruth.v, -1 = absent
        nav      (0 pytype value) | (1 exn) | (2) not observed: EBCDIC().nav(schema, buffer + pad).name(FLD).value()
        pad      the bytes that follow the item's value in the instance
   (2 tree fillers schema ext check load sites names errors)  one record description
        schema / ext   (0 structure) | (1 exn): standard / extended generator (wire form of JLayoutCommon; the size of an
                       elementary sub-schema is the minLength = maxLength the document states)
        check    (0) check_schema passed | (1) raised | (2) not run
        load     (0) from_json returned | (1 exn) | (2) not run
        sites    ((target (class anchor)) ...) every $ref / maxItemsDependsOn and the object it is bound to
        names    ((id unique-name) ...) the names the harness printed for the entries of the description
        errors   ((keyword last-path-step value) ...) every error Draft202012Validator(META_SCHEMA).iter_errors reports for
                 the document: the meta-schema keyword that failed, the last step of the path into the document, the
                 offending value as JSON
   (3 mutation document verdict tree texts xdocument xverdict errors)   the document as JSON against the meta-schema
        verdict  0 check_schema passed, 1 raised
        tree     the record description the document was generated from (unchanged document only; () otherwise)
        texts    ((id unique-name data-name usage picture) ...) what the generator wrote for every entry
        xdocument xverdict   the extended-vocabulary generator's document of the same description and check_schema's verdict
        errors   as in kind 2, of the unchanged standard document
        branch   4000 + mutation, + 100 when the extended document holds a decimal type (invalid by design),
                 + 200 when a data name begins with a digit

   Known finding 7, K-digit-first-name (kinds 2 and 3): a data name of the description begins with a digit (legal COBOL), the
   generator copies it into $anchor unchanged, the meta-schema's pattern for $anchor refuses it.  KNOWN only when the names
   say so AND check_schema raised AND every error the validator reports is the keyword pattern on a $anchor whose value
   is one of the digit-first names, unchanged, one error per such name AND everything else the property asks holds:
   kind 2 - structure, lengths, loading, bound references, the extended document; kind 3 - the document with the
   digit-first anchors prefixed by an underscore (Spec/DigitNames.v fix_anchors) is valid.  Any other failure on
   these inputs is a VIOLATION. *)
From Coq Require Import ZArith NArith List Bool.
Import ListNotations.
Require Import SR.Base.Sx SR.Base.Res SR.Base.Dec SR.Spec.Encode SR.Spec.Fits SR.Spec.Layout SR.Model.Layout
  SR.Model.Estruct SR.Spec.SchemaTruth SR.Model.JsonType SR.Model.SchemaDoc SR.Spec.Anchor SR.Spec.DigitNames
  SR.Judge.JEstructCommon SR.Judge.JLayoutCommon.
Open Scope Z_scope.

Definition bad_case : sx := L [A 9; A 0; L [A 0]].

(* ------------------------------------------------------------------ decoding *)

Definition fpic_of (s : sx) : fpic :=
  if as_Z (nth_sx 0 s) =? 0
  then PNum (as_bool (nth_sx 1 s)) (as_nat (nth_sx 2 s)) (as_nat (nth_sx 3 s)) (as_bool (nth_sx 4 s)) (as_bool (nth_sx 5 s))
  else PText (as_bool (nth_sx 1 s)) (as_nat (nth_sx 2 s)) (as_bool (nth_sx 3 s)).

Definition key_of (s : sx) : key :=
  if as_Z (nth_sx 0 s) =? 1 then KRedef (as_N (nth_sx 1 s)) else KName (as_N (nth_sx 1 s)).
Definition anchor_of (s : sx) : option key :=
  if as_Z (nth_sx 0 s) =? 1 then Some (key_of (nth_sx 1 s)) else None.

Fixpoint js_of (fuel : nat) (s : sx) : option js :=
  match fuel with
  | O => None
  | S f =>
      let a := anchor_of (nth_sx 1 s) in
      match as_Z (nth_sx 0 s) with
      | 0 => Some (JAtom a (as_nat (nth_sx 2 s)))
      | 1 => match js_of f (nth_sx 3 s) with Some its => Some (JArr a (as_nat (nth_sx 2 s)) its) | None => None end
      | 2 => match js_of f (nth_sx 3 s) with Some its => Some (JOdo a (as_N (nth_sx 2 s)) its) | None => None end
      | 3 =>
          match (fix go (l : list sx) : option props :=
                   match l with
                   | [] => Some PNil
                   | p :: t => match js_of f (nth_sx 1 p), go t with
                               | Some x, Some r => Some (PCons (key_of (nth_sx 0 p)) x r)
                               | _, _ => None
                               end
                   end) (as_list (nth_sx 2 s)) with
          | Some ps => Some (JObj a ps)
          | None => None
          end
      | 4 =>
          match (fix go (l : list sx) : option jalts :=
                   match l with
                   | [] => Some ANil
                   | p :: t => match js_of f p, go t with
                               | Some x, Some r => Some (ACons x r)
                               | _, _ => None
                               end
                   end) (as_list (nth_sx 2 s)) with
          | Some al => Some (JOne a al)
          | None => None
          end
      | 5 => Some (JRef (key_of (nth_sx 1 s)))
      | _ => None
      end
  end.

Fixpoint jval_of (fuel : nat) (s : sx) : jval :=
  match fuel with
  | O => VOther
  | S f =>
      match as_Z (nth_sx 0 s) with
      | 0 => VNull
      | 1 => VBool (as_bool (nth_sx 1 s))
      | 2 => VNum (as_Z (nth_sx 1 s))
      | 3 => VText (as_Ns (nth_sx 1 s))
      | 4 => VArr (map (jval_of f) (as_list (nth_sx 1 s)))
      | 5 => VMap (map (fun kv => (as_Ns (nth_sx 0 kv), jval_of f (nth_sx 1 kv))) (as_list (nth_sx 1 s)))
      | _ => VOther
      end
  end.

Definition obs_err (o : sx) (code : Z) : bool := (as_Z (nth_sx 0 o) =? 1) && (as_Z (nth_sx 1 o) =? code).
Definition obs_ok (o : sx) : bool := as_Z (nth_sx 0 o) =? 0.

(* ------------------------------------------------------------------ kind 1 *)

Definition field_is (o : sx) (t e c mn mx : N) : bool :=
  obs_ok o &&
  let f := nth_sx 1 o in
  (as_Z (nth_sx 0 f) =? Z.of_N t) && (as_Z (nth_sx 1 f) =? Z.of_N e) && (as_Z (nth_sx 2 f) =? Z.of_N c)
  && (as_Z (nth_sx 3 f) =? Z.of_N mn) && (as_Z (nth_sx 4 f) =? Z.of_N mx).

Definition field_agrees (o : sx) (m : res field) : bool :=
  match m with
  | Ok f => field_is o (f_type f) (f_enc f) (f_conv f) (f_min f) (f_max f)
  | Err e => obs_err o (exn_code e)
  end.

Definition memN (u : N) (l : list N) : bool := existsb (N.eqb u) l.

(* is (val, buffer) a valid record of the item (Spec/SchemaTruth.v valid_record, decided)? *)
Definition record_ok (u : N) (p : fpic) (val : sx) (buffer : list N) : bool :=
  match p, as_Z (nth_sx 0 val) with
  | PNum s m n _ _, 1 =>
      let ds := as_Ns (nth_sx 1 val) in
      let z := as_N (nth_sx 2 val) in
      N.eqb u display_spelling && forallb is_digit ds && valid_sign z
      && (length ds =? spec_display_width s (m + n))%nat && list_N_eqb buffer (enc_zoned ds z)
  | PNum s m n _ _, 2 =>
      let ds := as_Ns (nth_sx 1 val) in
      let sg := as_N (nth_sx 2 val) in
      memN u packed_spellings && forallb is_digit ds && valid_sign sg
      && (length ds =? m + n)%nat && list_N_eqb buffer (enc_packed ds sg)
  | PNum s m n _ _, 3 =>
      let w := as_nat (nth_sx 1 val) in
      let v := as_Z (nth_sx 2 val) in
      memN u binary_spellings
      && match spec_binary_width (m + n) with Some w' => (w =? w')%nat | None => false end
      && (- 2 ^ (8 * Z.of_nat w - 1) <=? v) && (v <? 2 ^ (8 * Z.of_nat w - 1))
      && list_N_eqb buffer (enc_be w v)
  | PText alpha k _, 4 =>
      N.eqb u display_spelling && (length buffer =? k)%nat && forallb (fun b => (b <? 256)%N) buffer
      && (negb alpha || forallb ebcdic_letter buffer)
  | _, _ => false
  end.

Definition judge_field (c : sx) : sx :=
  let gen := as_Z (nth_sx 1 c) in
  let u := as_N (nth_sx 2 c) in
  let p := fpic_of (nth_sx 3 c) in
  let text := as_Ns (nth_sx 4 c) in
  let val := nth_sx 5 c in
  let buffer := as_Ns (nth_sx 6 c) in
  let emitted := nth_sx 7 c in
  let nav := nth_sx 8 c in
  let pad := as_Ns (nth_sx 9 c) in
  let nav_seen := negb (as_Z (nth_sx 0 nav) =? 2) in
  let float := is_float_spelling u in
  if negb (wf_pic p && list_N_eqb text (pic_text p)) then bad_case else
  if nav_seen && negb float && negb (record_ok u p val buffer) then bad_case else
  let m := if gen =? 0 then emit_field u p else emit_field_ext u p in
  let conv := match m with Ok f => f_conv f | Err _ => 0%N end in
  (* the item comes first in its record: the navigation hands the decoder the first minLength bytes of the instance *)
  let raw := match m with Ok f => firstn (N.to_nat (f_min f)) (buffer ++ pad) | Err _ => buffer end in
  let mnav := delivered_type u p conv raw in
  let mval := decode u p raw in
  match spec_field u p, spec_field_ext u p with
  | Some (t, e, cv, sz, py), Some (tx, szx) =>
      let good_kw := if gen =? 0 then field_is emitted t e cv sz sz else field_is emitted tx 0 0 szx szx in
      let good_nav := negb nav_seen || (obs_ok nav && (as_Z (nth_sx 1 nav) =? py)) in
      let agree_nav :=
        negb nav_seen ||
        match mnav, mval with
        | Ok ty, Ok v => obs_ok nav && (as_Z (nth_sx 1 nav) =? ty) && obs_matches (obs_of_sx (L [A 0; nth_sx 2 nav])) (Ok v)
        | Err ex, _ => obs_err nav (exn_code ex)
        | _, Err ex => obs_err nav (exn_code ex)
        end in
      let known :=
        match known_bad_C08 u p with
        | Some 1 => Some (if gen =? 0 then 1 else 2)
        | Some k => Some k
        | None => if float && nav_seen then Some 4 else None
        end in
      let class := if N.eqb u display_spelling then 1
                   else if memN u packed_spellings then 2 else if memN u binary_spellings then 3 else 4 in
      let branch := 1000 * (1 + gen) + 100 * class
                    + (match p with PNum _ _ _ _ _ => 0 | PText _ _ _ => 50 end)
                    + (if written_with_repeat p then 10 else 0) + (if nav_seen then 1 else 0) in
      verdict known (good_kw && good_nav) (field_agrees emitted m && agree_nav) branch
        (L [match m with Ok f => L [A 0; L [of_N (f_type f); of_N (f_enc f); of_N (f_conv f); of_N (f_min f); of_N (f_max f)]]
                       | Err ex => L [A 1; A (exn_code ex)] end;
            L [of_N t; of_N e; of_N cv; of_N sz; A py];
            sx_of_res (fun z => A z) mnav])
  | _, _ => bad_case
  end.

(* ------------------------------------------------------------------ kind 2 *)

Definition incl_keys (a b : list key) : bool := forallb (fun k => existsb (key_eqb k) b) a.

Definition okey_eqb (a b : option key) : bool :=
  match a, b with
  | Some x, Some y => key_eqb x y
  | None, None => true
  | _, _ => false
  end.

(* the byte length the description gives an elementary item (the widths of the tree are C04's specification) *)
Fixpoint size_of (x : item) (i : id) : option nat :=
  match x with
  | Elem j sz _ _ => if N.eqb i j then Some sz else None
  | Group _ _ _ ks => size_kids ks i
  end
with size_kids (ks : items) (i : id) : option nat :=
  match ks with
  | INil => None
  | ICons x xs => match size_of x i with Some sz => Some sz | None => size_kids xs i end
  end.

(* every elementary sub-schema with its $anchor and the length it states *)
Fixpoint atoms_of (s : js) : list (option key * nat) :=
  match s with
  | JAtom a sz => [(a, sz)]
  | JArr _ _ its => atoms_of its
  | JOdo _ _ its => atoms_of its
  | JObj _ ps => atoms_props ps
  | JOne _ alts => atoms_alts alts
  | JRef _ => []
  end
with atoms_props (ps : props) : list (option key * nat) :=
  match ps with PNil => [] | PCons _ s r => atoms_of s ++ atoms_props r end
with atoms_alts (alts : jalts) : list (option key * nat) :=
  match alts with ANil => [] | ACons s r => atoms_of s ++ atoms_alts r end.

Definition lengths_ok (t : item) (j : js) : bool :=
  forallb (fun p => match fst p with
                    | Some (KName i) => match size_of t i with Some sz => Nat.eqb (snd p) sz | None => false end
                    | _ => false
                    end) (atoms_of j).

Definition sx_of_site (s : key * desc) : sx :=
  L [sx_of_key (fst s); L [A (cls_code (fst (snd s))); sx_of_anchor (snd (snd s))]].

(* ---- known finding 7: what the real validator objects to *)
Definition s_pattern : list N := [112; 97; 116; 116; 101; 114; 110]%N.

(* one error: the keyword pattern, on a $anchor, whose value is a text that begins with a digit and is one of [names] *)
Definition anchor_error (names : list (list N)) (e : sx) : bool :=
  str_eqb (as_Ns (nth_sx 0 e)) s_pattern && str_eqb (as_Ns (nth_sx 1 e)) k_anchor
  && match jval_of 3 (nth_sx 2 e) with
     | VText s => digit_first s && negb (legal s) && existsb (str_eqb s) names
     | _ => false
     end.

(* the refusal is for the digit-first anchors and for nothing else: at least one error, every error such an anchor,
   as many errors as digit-first names (every name is anchored once) *)
Definition digit_refusal (names : list (list N)) (errors : list sx) : bool :=
  match errors with [] => false | _ => forallb (anchor_error names) errors && (length errors =? length names)%nat end.

Definition no_errors (errors : list sx) : bool := match errors with [] => true | _ => false end.

Definition judge_tree (c : sx) : sx :=
  let t := item_of (nth_sx 1 c) in
  let fillers := as_Ns (nth_sx 2 c) in
  let schema := nth_sx 3 c in
  let ext := nth_sx 4 c in
  let check := nth_sx 5 c in
  let loaded := nth_sx 6 c in
  let sites := as_list (nth_sx 7 c) in
  let m := build t in
  let raises := build_raises t in
  let site_good (s : sx) : bool :=
    okey_eqb (anchor_of (nth_sx 1 (nth_sx 1 s))) (Some (key_of (nth_sx 0 s))) in
  let names := as_list (nth_sx 8 c) in
  let errors := as_list (nth_sx 9 c) in
  let digit_rows := filter (fun r => digit_first (as_Ns (nth_sx 1 r))) names in
  let jo := if obs_ok schema then js_of 400 (nth_sx 1 schema) else None in
  let checked := as_Z (nth_sx 0 check) =? 0 in
  (* everything the property asks except the validator's verdict (check_schema raises exactly when it reports an error) *)
  let good_rest :=
    match jo with
    | None => false
    | Some j =>
        valid_2020_12_shape j && incl_keys (refs_of j) (anchors_of j) && lengths_ok t j
        && (as_Z (nth_sx 0 loaded) =? 0)
        && forallb site_good sites && (length sites =? length (refs_of j))%nat
        && sx_eqb ext schema && Bool.eqb checked (no_errors errors)
    end in
  let good := good_rest && checked in
  (* known finding 7: a digit-first name, emitted as $anchor unchanged (the wire form of the schema names an entry only where
     the emitted text IS the name the harness printed), refused by the validator for those anchors only *)
  let digit_known :=
    match digit_rows, jo with
    | _ :: _, Some j =>
        (as_Z (nth_sx 0 check) =? 1)
        && forallb (fun r => existsb (key_eqb (KName (as_N (nth_sx 0 r)))) (anchors_of j)) digit_rows
        && digit_refusal (map (fun r => as_Ns (nth_sx 1 r)) digit_rows) errors
        && good_rest
    | _, _ => false
    end in
  let mload := load (fun i => memN i fillers) m in
  let agree :=
    if raises then obs_err schema 4 && obs_err ext 4
    else sx_eqb schema (L [A 0; sx_of_js m]) && sx_eqb ext (L [A 0; sx_of_js m])
         && match mload with
            | Ok l => (as_Z (nth_sx 0 loaded) =? 0) && sx_eqb (L sites) (L (map sx_of_site l))
            | Err ex => obs_err loaded (exn_code ex)
            end in
  let known := if raises then Some 5 else if occurs_elem_in_union t then Some 6 else if digit_known then Some 7 else None in
  let branch := 3000 + (if has_odo t then 1 else 0) + (if has_redef t then 2 else 0) + (if has_table t then 4 else 0)
                + (match fillers with [] => 0 | _ => 8 end)
                + (if odo_ok [] t then 16 else 0)      (* hypothesis of C08_loadable about DEPENDING ON holds *)
                + (match digit_rows with [] => 0 | _ => 32 end) in   (* a data name begins with a digit *)
  verdict known good agree branch
    (L [of_bool (sx_eqb schema (L [A 0; sx_of_js m])); of_bool (sx_eqb ext schema);
        match mload with Ok l => L [A 0; L (map sx_of_site l)] | Err ex => L [A 1; A (exn_code ex)] end;
        check; loaded; of_bool good_rest; of_nat (length digit_rows); of_nat (length errors)]).

(* ------------------------------------------------------------------ kind 3 *)

(* The unchanged document arrives with the record description it was printed from and with the texts the generator
   wrote for every entry: ((id unique-name data-name usage picture) ...).  The MODEL's document is Model/SchemaDoc.v
   doc over Model/Layout.v build, with type / contentEncoding / conversion from Model/JsonType.v json_type on the
   entry's USAGE and PICTURE.  The text of the cobol keyword (level + source of the entry, unconstrained by the
   meta-schema) is not modelled: it is read back from the sub-schema of the EMITTED document that bears the entry's
   $anchor, so the comparison decides where the keyword stands and that a table, its inner item and a $ref
   placeholder repeat the text of their entry - not the text itself. *)
Definition row_of (tab : list sx) (i : id) : option sx :=
  find (fun r => N.eqb (as_N (nth_sx 0 r)) i) tab.
Definition tab_text (tab : list sx) (col : nat) (i : id) : list N :=
  match row_of tab i with Some r => as_Ns (nth_sx col r) | None => [] end.
Definition tab_kw (jt : N -> list N -> res (N * N * N)) (tab : list sx) (i : id) : N * N * N :=
  match row_of tab i with
  | Some r => match jt (as_N (nth_sx 3 r)) (as_Ns (nth_sx 4 r)) with Ok k => k | Err _ => (0, 0, 0)%N end
  | None => (0, 0, 0)%N
  end.

Definition jget (k : list N) (d : list (list N * jval)) : option jval :=
  match find (fun kv => str_eqb (fst kv) k) d with Some kv => Some (snd kv) | None => None end.

(* ($anchor, cobol) of every sub-schema of the emitted document that has both *)
Fixpoint cobols (fuel : nat) (v : jval) : list (list N * list N) :=
  match fuel with
  | O => []
  | S f =>
      match v with
      | VMap d =>
          (match jget k_anchor d, jget k_cobol d with
           | Some (VText a), Some (VText c) => [(a, c)]
           | _, _ => []
           end) ++ flat_map (fun kv => cobols f (snd kv)) d
      | VArr l => flat_map (cobols f) l
      | _ => []
      end
  end.

Definition cobol_in (cs : list (list N * list N)) (name : list N) : list N :=
  match find (fun p => str_eqb (fst p) name) cs with Some p => snd p | None => [] end.

Definition model_doc (jt : N -> list N -> res (N * N * N)) (t : item) (tab : list sx) (observed : jval) : jval :=
  let cs := cobols 200 observed in
  doc (tab_text tab 1) (tab_text tab 2) (fun i => cobol_in cs (tab_text tab 1 i)) (tab_kw jt tab) (build t).

Definition judge_meta (c : sx) : sx :=
  let mutation := as_Z (nth_sx 1 c) in
  let doc := jval_of 200 (nth_sx 2 c) in
  let passed := as_Z (nth_sx 3 c) =? 0 in
  let has_tree := match nth_sx 4 c with L (_ :: _) => true | _ => false end in
  let t := item_of (nth_sx 4 c) in
  let tab := as_list (nth_sx 5 c) in
  let v := valid_schema 200 doc in
  (* the emitted document IS the model's document (only asked of the unchanged one) *)
  let same := negb has_tree || jval_eqb (model_doc json_type t tab doc) doc in
  (* the extended-vocabulary generator's document of the same description: the same rendering with json_type_ext's
     keywords; its validity is only compared with the validator's verdict (decimal is outside the meta-schema by design) *)
  let xdoc := jval_of 200 (nth_sx 6 c) in
  let xpassed := as_Z (nth_sx 7 c) =? 0 in
  let xv := valid_schema 200 xdoc in
  let same_x := negb has_tree || (jval_eqb (model_doc json_type_ext t tab xdoc) xdoc && Bool.eqb xv xpassed) in
  (* the unchanged document must be valid; a mutated one only ties the predicate to the validator *)
  let good := if mutation =? 0 then passed && v else true in
  (* known finding 7: a digit-first name of the description stands unchanged as $anchor, the validator refuses the document
     for those anchors only (one error each), and with an underscore before them the document is valid *)
  let errors := as_list (nth_sx 8 c) in
  let digit_names := filter digit_first (map (fun r => as_Ns (nth_sx 1 r)) tab) in
  let anchor_texts := map fst (cobols 200 doc) in
  let fixed_valid := valid_schema 200 (fix_anchors 200 doc) in
  let digit_known :=
    has_tree && (mutation =? 0) && negb passed
    && match digit_names with [] => false | _ => true end
    && forallb (fun s => existsb (str_eqb s) anchor_texts) digit_names
    && digit_refusal digit_names errors
    && fixed_valid in
  verdict (if digit_known then Some 7 else None) good (Bool.eqb v passed && same && same_x)
    (4000 + mutation + (if has_tree && negb xv then 100 else 0)
     + (if has_tree then match digit_names with [] => 0 | _ => 200 end else 0))
    (L [of_bool v; of_bool passed; of_bool same; of_bool same_x; of_bool xv; of_bool xpassed; of_bool fixed_valid;
        of_nat (length digit_names); of_nat (length errors)]).

Definition judge (c : sx) : sx :=
  match as_Z (nth_sx 0 c) with
  | 1 => judge_field c
  | 2 => judge_tree c
  | 3 => judge_meta c
  | _ => bad_case
  end.
