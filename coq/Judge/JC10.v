(* Judge for C10.
   case = (tree record env counters atoms schema top paths row neg)
     tree     abstract record description (JLayoutCommon wire form)
     record   the instance bytes (valid encodings, a few fields overwritten with undecodable bytes)
     env      ((counter-id value) ...)            counters ((counter-id path) ...)
     atoms    ((id 0 usage signed m n) | (id 1 usage k 0 0) ...)  the decoder of every elementary item:
              numeric S?9(m)V9(n) or text X(k), usage = spelling number of Gen/EstructParams.v
     schema   the emitted JSON schema (structure), (0 schema) | (1 exn)
     top      (0 end) | (1 exn)  end of the location from_instance built
     paths    ((path obs) ...)   path = ((0 id) name | (1 i) index | (2 id) REDEFINES-id ...)
              obs = (0 start end raw val log) | (1 exn)     nav along the path, then
              val = (0 pv) | (1 exn)  nav.value();  log = ((a b) ...) slices value() took from the instance
              pv = (0 pyval) | (1 (pv ...)) list | (2 ((key pv) ...)) dict in order
     row      (((key val) ...) vals)  for every name of schema.properties in order: nav.name(name).value();
              vals = (0 (pv ...)) | (1 exn) = Row.values()
     neg      ((path obs z) ...) nav(path).index(z) with z < 0: obs = (0 start end) | (1 exn)   (own stream only);
                                 the property demands IndexError, the model is index_start_z
     cut      number of bytes the record is short of its extent (stream truncated; absent or 0 otherwise)
     badc     (1 cusage) stream bad-counter only (absent otherwise): the counters of the record description are
              cusage = 0 unsigned DISPLAY items, 1 unsigned COMP-3 items, and some of them may hold bytes their decoder
              rejects.  Every observation of such a case is a COMPLETE read made from scratch: top = unpacker.nav(...),
              each path obs = unpacker.nav(...) then the path then start / end / raw() / value().  The model is the
              navigator constructor with a partial counter decoder (Model/LayoutPartial.v), the counter decoder is
              estruct's (dcountp_zoned / dcountp_packed).

   Known findings: 1 = K-index-odo-value (trigger odo_in_table), 2 = K-bad-counter-blocks-record: the tree has an ODO
   table, some counter the walk reaches holds bytes its decoder rejects (bad_counter = Some ex, ex the decoder's
   ValueError), and EVERY observation is that exception - unpacker.nav raised it, so no field could be read.  KNOWN is
   returned only then.  The property predicate of that branch: every requested elementary field whose place does not
   depend on a rejected counter was reached and its value() is the decoding of its own bytes (a value, or the decoder's
   exception - the rejected counter itself); a requested path whose place does depend on a rejected counter delivered no
   value.  So another exception class, a swallowed exception (a count of 0, fields read from wrong places) or a wrong
   value is a VIOLATION, and an implementation that defers the error to the fields it concerns passes. *)
From Coq Require Import ZArith NArith List Bool.
Import ListNotations.
Require Import SR.Base.Sx SR.Base.Res SR.Base.Dec SR.Spec.Layout SR.Model.Layout SR.Model.Estruct
  SR.Model.LayoutValue SR.Model.LayoutPartial SR.Spec.Coherence SR.Judge.JLayoutCommon SR.Judge.JEstructCommon.
Open Scope Z_scope.

Definition bytes_eqb (a b : list N) : bool :=
  (length a =? length b)%nat && forallb (fun p => N.eqb (fst p) (snd p)) (combine a b).

(* ---- decoders ---- *)
Definition dec_of (atoms : list sx) (a : option key) (bs : list N) : res pyval :=
  match a with
  | Some (KName i) =>
      match find (fun s => N.eqb (as_N (nth_sx 0 s)) i) atoms with
      | Some s =>
          let usage := as_N (nth_sx 2 s) in
          if as_Z (nth_sx 1 s) =? 0
          then unpack usage (pic_of (nth_sx 3 s) (nth_sx 4 s) (nth_sx 5 s)) bs
          else unpack_x usage (as_nat (nth_sx 3 s)) bs
      | None => Err OtherError
      end
  | _ => Err OtherError
  end.

(* ---- wire forms ---- *)
Definition wstep_of (s : sx) : wstep :=
  match as_Z (nth_sx 0 s) with
  | 1 => SIdx (as_nat (nth_sx 1 s))
  | 2 => SKey (KRedef (as_N (nth_sx 1 s)))
  | _ => SKey (KName (as_N (nth_sx 1 s)))
  end.
Definition wpath_of (s : sx) : list wstep := map wstep_of (as_list s).
Definition plain_path (s : sx) : bool := forallb (fun x => as_Z (nth_sx 0 x) <? 2) (as_list s).

Fixpoint pv_matches (s : sx) (v : pv pyval) {struct v} : bool :=
  match v with
  | PAtom x =>
      (as_Z (nth_sx 0 s) =? 0)
      && match pyval_of_sx (nth_sx 1 s) with Some y => pyval_eqb y x | None => false end
  | PList l =>
      (as_Z (nth_sx 0 s) =? 1)
      && (fix go (l : list (pv pyval)) (ss : list sx) {struct l} : bool :=
            match l, ss with
            | [], [] => true
            | x :: l', s' :: ss' => pv_matches s' x && go l' ss'
            | _, _ => false
            end) l (as_list (nth_sx 1 s))
  | PDict d =>
      (as_Z (nth_sx 0 s) =? 2)
      && (fix go (d : list (key * pv pyval)) (ss : list sx) {struct d} : bool :=
            match d, ss with
            | [], [] => true
            | (k, x) :: d', s' :: ss' =>
                sx_eqb (nth_sx 0 s') (sx_of_key k) && pv_matches (nth_sx 1 s') x && go d' ss'
            | _, _ => false
            end) d (as_list (nth_sx 1 s))
  end.

Definition is_val (o : sx) : bool := as_Z (nth_sx 0 o) =? 0.
Definition is_err (o : sx) (code : Z) : bool := (as_Z (nth_sx 0 o) =? 1) && (as_Z (nth_sx 1 o) =? code).

Definition val_agrees (o : sx) (m : vres (pv pyval)) : bool :=
  match m with
  | Some (Ok v) => is_val o && pv_matches (nth_sx 1 o) v
  | Some (Err e) => is_err o (exn_code e)
  | None => is_err o 5                          (* RecursionError is a RuntimeError *)
  end.

Definition vals_agree (o : sx) (m : vres (list (pv pyval))) : bool :=
  match m with
  | Some (Ok vs) => is_val o && pv_matches (L [A 1; nth_sx 1 o]) (PList vs)
  | Some (Err e) => is_err o (exn_code e)
  | None => is_err o 5
  end.

(* the observed value() of an elementary item: (0 (0 pyval)) | (1 exn) *)
Definition atom_obs (val : sx) : obs :=
  if is_val val then
    (if as_Z (nth_sx 0 (nth_sx 1 val)) =? 0 then obs_of_sx (L [A 0; nth_sx 1 (nth_sx 1 val)]) else OBad)
  else obs_of_sx val.

Definition find_obs (paths : list sx) (p : sx) : option sx :=
  match find (fun po => sx_eqb (nth_sx 0 po) p) paths with Some po => Some (nth_sx 1 po) | None => None end.

Definition range_in (lo hi : Z) (ab : sx) : bool := (lo <=? as_Z (nth_sx 0 ab)) && (as_Z (nth_sx 1 ab) <=? hi).
Definition zfoot (l : list (nat * nat)) : list (Z * Z) := map (fun p => (Z.of_nat (fst p), Z.of_nat (snd p))) l.
Definition zlog (l : list sx) : list (Z * Z) := map (fun ab => (as_Z (nth_sx 0 ab), as_Z (nth_sx 1 ab))) l.
Definition zmem (p : Z * Z) (l : list (Z * Z)) : bool := existsb (fun q => (fst p =? fst q) && (snd p =? snd q)) l.
Definition zsubset (a b : list (Z * Z)) : bool := forallb (fun p => zmem p b) a.

Definition sx_lookup (k : sx) (d : list sx) : option sx :=
  match find (fun e => sx_eqb (nth_sx 0 e) k) d with Some e => Some (nth_sx 1 e) | None => None end.

(* sequence of per-name observations = what the list comprehension of Row.values returns *)
Fixpoint seq_obs (tops : list sx) : sx :=
  match tops with
  | [] => L [A 0; L []]
  | t :: rest =>
      let o := nth_sx 1 t in
      if is_val o then
        match seq_obs rest with
        | L [A 0; L xs] => L [A 0; L (nth_sx 1 o :: xs)]
        | e => e
        end
      else o
  end.

(* the judge of every stream but bad-counter; dcnt = the total counter decoder of the case *)
Definition judge_with (dcnt : list N -> nat) (c : sx) : sx :=
  let t := item_of (nth_sx 0 c) in
  let r := as_Ns (nth_sx 1 c) in
  let e := env_of (nth_sx 2 c) in
  let counters := as_list (nth_sx 3 c) in
  let atoms := as_list (nth_sx 4 c) in
  let schema := nth_sx 5 c in
  let top := nth_sx 6 c in
  let paths := as_list (nth_sx 7 c) in
  let tops := as_list (nth_sx 0 (nth_sx 8 c)) in
  let rowvals := nth_sx 1 (nth_sx 8 c) in
  let negs := as_list (nth_sx 9 c) in
  let counters_ok :=
    forallb (fun cp =>
      match spec_nav e (VItem t) 0 (path_of (nth_sx 1 cp)) with
      | inl (v, st) => (dcnt (slice r st (st + view_size e v)) =? e (as_N (nth_sx 0 cp)))%nat
      | inr _ => false
      end) counters in
  let cut := as_nat (nth_sx 10 c) in      (* bytes missing at the end of a truncated record (0: the record is complete) *)
  if negb (counters_ok && (length r + cut =? extent e t)%nat && negb (build_raises t)) then L [A 9; A 0; L [A 0]] else
  let dec := dec_of atoms in
  let js := build t in
  let mnav := vnav_of dcnt r js in
  (* ------------------------------------------------------------ the property, on the observations *)
  let good_path (po : sx) : bool :=
    let p := nth_sx 0 po in
    let o := nth_sx 1 po in
    let steps := as_list p in
    (* refusal / acceptance as the record description demands *)
    (if plain_path p then
       match spec_nav e (VItem t) 0 (path_of p) with
       | inl (v, st) =>
           is_val o
           && (* an elementary item: its value is the decoding of its own bytes, whatever the rest holds *)
              (let own :=
                 match v, rev steps with
                 | VItem (Elem i sz Once _), _ => Some (i, sz)
                 | VAtom sz, last :: _ => Some (as_N (nth_sx 1 last), sz)
                 | _, _ => None
                 end in
               match own with
               | Some (i, sz) =>
                   obs_matches (atom_obs (nth_sx 4 o)) (dec (Some (KName i)) (slice r st (st + sz)))
               | None => true
               end)
       | inr IndexOut => is_err o 3
       | inr _ => negb (is_val o)
       end
     else true)
    && (if is_val o then
          (* value() read nothing outside the location's own bytes *)
          forallb (range_in (as_Z (nth_sx 1 o)) (as_Z (nth_sx 2 o))) (as_list (nth_sx 5 o))
          && bytes_eqb (as_Ns (nth_sx 3 o)) (slice r (as_nat (nth_sx 1 o)) (as_nat (nth_sx 2 o)))
        else true)
    && (* whole versus part *)
       match rev steps with
       | [] => true
       | last :: rq =>
           match find_obs paths (L (rev rq)) with
           | None => true
           | Some po' =>
               if is_val po' && is_val o then
                 let ps := as_Z (nth_sx 1 po') in
                 let pe := as_Z (nth_sx 2 po') in
                 let cs := as_Z (nth_sx 1 o) in
                 let ce := as_Z (nth_sx 2 o) in
                 (* raw bytes of the child = that slice of the parent's raw bytes *)
                 (ps <=? cs) && (ce <=? pe)
                 && bytes_eqb (as_Ns (nth_sx 3 o))
                      (slice (as_Ns (nth_sx 3 po')) (Z.to_nat (cs - ps)) (Z.to_nat (ce - ps)))
                 && (let pval := nth_sx 4 po' in
                     if is_val pval then
                       let whole := nth_sx 1 pval in
                       let part :=
                         if as_Z (nth_sx 0 last) =? 1
                         then (if as_Z (nth_sx 0 whole) =? 1
                               then nth_error (as_list (nth_sx 1 whole)) (as_nat (nth_sx 1 last)) else None)
                         else (if as_Z (nth_sx 0 whole) =? 2
                               then sx_lookup (L [A (if as_Z (nth_sx 0 last) =? 2 then 1 else 0); nth_sx 1 last])
                                      (as_list (nth_sx 1 whole)) else None) in
                       match part with
                       | Some x => sx_eqb (nth_sx 4 o) (L [A 0; x])
                       | None => false
                       end
                     else true)
               else true
           end
       end in
  let good_row := sx_eqb rowvals (seq_obs tops) in
  (* a negative index is refused with IndexError, whatever the table *)
  let good_neg := forallb (fun po => (as_Z (nth_sx 2 po) <? 0) && is_err (nth_sx 1 po) 3) negs in
  let good := forallb good_path paths && good_row && good_neg && is_val top in
  (* ------------------------------------------------------------ correspondence with the model *)
  let agree_path (po : sx) : bool :=
    let o := nth_sx 1 po in
    match mnav with
    | Err ex => is_err o (exn_code ex)
    | Ok v0 =>
        match vnav_path dcnt r v0 (wpath_of (nth_sx 0 po)) with
        | Ok v =>
            is_val o
            && (as_Z (nth_sx 1 o) =? Z.of_nat (wstart (vn_loc v)))
            && (as_Z (nth_sx 2 o) =? Z.of_nat (wend (vn_loc v)))
            && bytes_eqb (as_Ns (nth_sx 3 o)) (vnav_raw r v)
            && (let mv := vnav_value r dec v in
                val_agrees (nth_sx 4 o) mv
                && (let ft := zfoot (vnav_foot v) in
                    let lg := zlog (as_list (nth_sx 5 o)) in
                    zsubset lg ft
                    && match mv with
                       | Some (Ok _) => zsubset ft lg
                       | _ => true
                       end))
        | Err ex => is_err o (exn_code ex)
        end
    end in
  let agree_top (kv : sx) : bool :=
    match mnav with
    | Err ex => is_err (nth_sx 1 kv) (exn_code ex)
    | Ok v0 =>
        match vnav_name v0 (match wstep_of (nth_sx 0 kv) with SKey k => k | SIdx _ => KName 0%N end) with
        | Ok v => val_agrees (nth_sx 1 kv) (vnav_value r dec v)
        | Err ex => is_err (nth_sx 1 kv) (exn_code ex)
        end
    end in
  let keys_agree :=
    match mnav with
    | Ok v0 =>
        match vn_loc v0 with
        | WObj _ _ ps =>
            sx_eqb (L (map (fun kv => nth_sx 0 kv) tops))
                   (L (map (fun k => match k with KName i => L [A 0; of_N i] | KRedef i => L [A 2; of_N i] end) (wkeys ps)))
        | _ => false
        end
    | Err _ => true
    end in
  let row_agrees :=
    match mnav with
    | Ok v0 => vals_agree rowvals (row_values r dec v0)
    | Err ex => is_err rowvals (exn_code ex)
    end in
  let agree_neg (po : sx) : bool :=
    let o := nth_sx 1 po in
    match mnav with
    | Err ex => is_err o (exn_code ex)
    | Ok v0 =>
        match vnav_path dcnt r v0 (wpath_of (nth_sx 0 po)) with
        | Ok v =>
            match index_start_z v (as_Z (nth_sx 2 po)) with
            | Ok z => is_val o && (as_Z (nth_sx 1 o) =? z)
            | Err ex => is_err o (exn_code ex)
            end
        | Err ex => is_err o (exn_code ex)
        end
    end in
  let schema_agrees := sx_eqb schema (L [A 0; sx_of_js js]) in
  let top_agrees :=
    match mnav with
    | Ok v0 => is_val top && (as_Z (nth_sx 1 top) =? Z.of_nat (wend (vn_loc v0)))
    | Err ex => is_err top (exn_code ex)
    end in
  let agree := schema_agrees && forallb agree_path paths && forallb agree_top tops && keys_agree && row_agrees
               && forallb agree_neg negs && top_agrees in
  (* the hypotheses of C10_lazy / C10_commute_index hold: the emitted schema is cobol_like, every location reads inside itself *)
  let hyp :=
    cobol_like js &&
    match mnav with
    | Ok v0 =>
        forallb (fun po => match vnav_path dcnt r v0 (wpath_of (nth_sx 0 po)) with
                           | Ok v => foot_inside v | Err _ => true end) paths
    | Err _ => true
    end in
  let known := if odo_in_table t then Some 1 else None in
  let some_bad := existsb (fun po => is_val (nth_sx 1 po) && negb (is_val (nth_sx 4 (nth_sx 1 po)))) paths in
  let branch := 1 + (if has_odo t then 1 else 0) + (if has_redef t then 2 else 0) + (if has_table t then 4 else 0)
                + (if some_bad then 8 else 0) in
  verdict known (good && hyp) agree branch
    (L [of_bool (forallb good_path paths); of_bool good_row; of_bool good_neg; of_bool hyp; of_bool schema_agrees;
        of_bool (forallb agree_path paths); of_bool (forallb agree_top tops); of_bool keys_agree; of_bool row_agrees;
        of_bool (forallb agree_neg negs); of_bool top_agrees;
        L (map (fun po => nth_sx 0 po) (filter (fun po => negb (good_path po && agree_path po)) paths))]).

(* ------------------------------------------------------------------ stream bad-counter *)
Definition counter_dec (cusage : Z) : list N -> res nat := if cusage =? 1 then dcountp_packed else dcountp_zoned.

(* the case in which some counter the walk reaches is rejected by its decoder with ex *)
Definition judge_bad (cdec : list N -> res nat) (ex : exn) (c : sx) : sx :=
  let t := item_of (nth_sx 0 c) in
  let r := as_Ns (nth_sx 1 c) in
  let e := env_of (nth_sx 2 c) in
  let counters := as_list (nth_sx 3 c) in
  let atoms := as_list (nth_sx 4 c) in
  let schema := nth_sx 5 c in
  let top := nth_sx 6 c in
  let paths := as_list (nth_sx 7 c) in
  let tops := as_list (nth_sx 0 (nth_sx 8 c)) in
  let rowvals := nth_sx 1 (nth_sx 8 c) in
  let cut := as_nat (nth_sx 10 c) in
  let cusage := as_Z (nth_sx 1 (nth_sx 11 c)) in
  (* the bytes the specification assigns to a counter, under the count vector the record was laid out with *)
  let field (cp : sx) : option (list N) :=
    match spec_nav e (VItem t) 0 (path_of (nth_sx 1 cp)) with
    | inl (v, st) => Some (slice r st (st + view_size e v))
    | inr _ => None
    end in
  (* the case is what the stream promises: every counter decodes to its count or is rejected; a complete record; an ODO
     table outside every repeated item (the trigger of finding 1 is not this one) *)
  let valid :=
    forallb (fun cp => match field cp with
                       | Some bs => match cdec bs with Ok n => (n =? e (as_N (nth_sx 0 cp)))%nat | Err _ => true end
                       | None => false
                       end) counters
    && (length r =? extent e t)%nat && (cut =? 0)%nat && negb (build_raises t) && has_odo t && negb (odo_in_table t) in
  if negb valid then L [A 9; A 0; L [A 1]] else
  let dec := dec_of atoms in
  let js := build t in
  (* the counters that are rejected, and two count vectors that differ exactly there *)
  let rejected (cid : N) : bool :=
    existsb (fun cp => N.eqb (as_N (nth_sx 0 cp)) cid
                       && match field cp with Some bs => negb (is_ok (cdec bs)) | None => false end) counters in
  let e0 : env := fun cid => if rejected cid then 0%nat else e cid in
  let e1 : env := fun cid => if rejected cid then 1%nat else e cid in
  (* ------------------------------------------------------------ the property, on the observations.
     A place is a sum of products of counts, so equal places under 0 and under 1 for the rejected counters mean that they
     do not occur in it.  A requested ELEMENTARY field whose place and size do not depend on a rejected counter must have
     been reached, and its value() must be the decoding of its own bytes (the value, or the decoder's exception when its
     own bytes do not decode - the rejected counter itself is such a field).  A requested path whose place does depend
     on a rejected counter cannot be located: it must not deliver a value. *)
  let delivered (o : sx) : bool := is_val o && is_val (nth_sx 4 o) in
  let good_path (po : sx) : bool :=
    let p := nth_sx 0 po in
    let o := nth_sx 1 po in
    let steps := as_list p in
    if plain_path p then
      match spec_nav e0 (VItem t) 0 (path_of p), spec_nav e1 (VItem t) 0 (path_of p) with
      | inl (v, st), inl (v1, st1) =>
          if (st =? st1)%nat && (view_size e0 v =? view_size e1 v1)%nat then
            let own :=
              match v, rev steps with
              | VItem (Elem i sz Once _), _ => Some (i, sz)
              | VAtom sz, last :: _ => Some (as_N (nth_sx 1 last), sz)
              | _, _ => None
              end in
            match own with
            | Some (i, sz) => is_val o && obs_matches (atom_obs (nth_sx 4 o)) (dec (Some (KName i)) (slice r st (st + sz)))
            | None => true
            end
          else negb (delivered o)
      | inr _, inr _ => true
      | _, _ => negb (delivered o)
      end
    else true in
  let good := forallb good_path paths in
  (* ------------------------------------------------------------ correspondence with the model: vnav_ofp = Err ex, so
     unpacker.nav raised ex and with it every read *)
  let code := exn_code ex in
  let model_blocks := match vnav_ofp cdec r js with Err ex' => exn_eqb ex ex' | Ok _ => false end in
  let schema_agrees := sx_eqb schema (L [A 0; sx_of_js js]) in
  let agree := model_blocks && schema_agrees && is_err top code
               && forallb (fun po => is_err (nth_sx 1 po) code) paths
               && forallb (fun kv => is_err (nth_sx 1 kv) code) tops
               && is_err rowvals code in
  (* pinned: the finding is the DECODER's exception class, ValueError for a zoned digit or packed nibble above 9 *)
  let known := if exn_eqb ex ValueError then Some 2 else None in
  let demanded := existsb (fun po => negb (good_path po)) paths in
  let branch := 32 + (if cusage =? 1 then 1 else 0) + (if has_redef t then 2 else 0) + (if has_table t then 4 else 0)
                + (if demanded then 8 else 0) in
  verdict known good agree branch
    (L [of_bool good; of_bool model_blocks; of_bool schema_agrees; of_bool (is_err top code);
        of_bool (forallb (fun po => is_err (nth_sx 1 po) code) paths); of_bool (forallb (fun kv => is_err (nth_sx 1 kv) code) tops);
        of_bool (is_err rowvals code);
        L (map (fun po => nth_sx 0 po) (filter (fun po => negb (good_path po)) paths))]).

Definition judge (c : sx) : sx :=
  if as_Z (nth_sx 0 (nth_sx 11 c)) =? 1 then
    let cdec := counter_dec (as_Z (nth_sx 1 (nth_sx 11 c))) in
    match bad_counter cdec (as_Ns (nth_sx 1 c)) (build (item_of (nth_sx 0 c))) with
    | Some ex => judge_bad cdec ex c
    | None => judge_with (dtot cdec) c        (* every counter reached decodes: the partial constructor is the total one *)
    end
  else judge_with dcount c.
