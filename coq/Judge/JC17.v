(* Judge for C17.  case = (s obs1 obs2 obs3 v) where obs1 = result of name_cleaner(s) as
   (0 codepoints) | (1 exn), obs2 = result of name_cleaner(result) (or (1 0) when obs1 failed),
   obs3 = the $anchor HeadingRowSchemaLoader.header emits for the single heading s, v = 0 when the real
   2020-12 validator accepts that heading-row schema (1 rejected, 2 the loader raised). *)
From Coq Require Import ZArith NArith List Bool.
Import ListNotations.
Require Import SR.Base.Sx SR.Base.Res SR.Spec.Anchor SR.Model.NameCleaner.
Open Scope Z_scope.

Definition list_N_eqb (a b : list N) : bool :=
  (length a =? length b)%nat && forallb (fun p => N.eqb (fst p) (snd p)) (combine a b).

Definition obs_res (o : sx) : res (list N) :=
  if Z.eqb (as_Z (nth_sx 0 o)) 0 then Ok (as_Ns (nth_sx 1 o)) else Err OtherError.

Definition judge (c : sx) : sx :=
  let s := as_Ns (nth_sx 0 c) in
  let o1 := obs_res (nth_sx 1 c) in
  let o2 := obs_res (nth_sx 2 c) in
  let o3 := obs_res (nth_sx 3 c) in
  let valid := Z.eqb (as_Z (nth_sx 4 c)) 0 in
  let m := clean_iters s in
  (* a non-empty heading becomes a column whose anchor is legal and whose schema validates; the anchor is the cleaned name *)
  let good_heading :=
    match o3 with
    | Err _ => false
    | Ok a => (match s with [] => true | _ => legal a && valid end)
              && (match o1 with Ok r => list_N_eqb a r | Err _ => true end)
    end in
  let good0 :=
    match o1 with
    | Err _ => false                                  (* never raises *)
    | Ok r =>
        (match r with [] => true | _ => legal r end)  (* empty or legal *)
        && (if legal s then list_N_eqb r s else true) (* legal names unchanged *)
        && (match o2 with Ok r2 => list_N_eqb r2 r | Err _ => false end)  (* idempotent *)
    end in
  let good := good0 && good_heading in
  let agree :=
    match o1, m with
    | Ok r, Some (Ok mr, _) => list_N_eqb r mr
    | Err _, Some (Err _, _) => true
    | _, _ => false
    end in
  let branch := match m with Some (_, n) => Z.of_nat n | None => -1 end in
  verdict None good agree branch
    (L [match m with
        | Some (r, _) => sx_of_res of_Ns r
        | None => L [A 2] end]).
