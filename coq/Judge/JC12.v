(* Judge for C12.  The first element of a case selects the stream.

   (0 lines repl obs)                         reference_format(lines, repl)
        lines = list of strings, repl = list of (old new), obs = (0 (strings)) | (1 exn)
        good  = obs is what Spec/RefFormat.v demands (when the spec says something)
        agree = obs is what Model/RefFormat.v computes
        known = 1 numbered directive line / 2 slash comment line present
   (1 has entries tail chunks obs)            dde_sentences(chunks)
        entries = list of (lead d1 d2 gap body term), text = printed entries ++ tail, cut into chunks
        good  = (has, entries well formed, chunks really are the printed text) -> obs = (level, body) list;
                otherwise obs = model
   (2 text obs)                               DDE.compact_source
   (3 kinds flags o0 o1 l0 r0 l1 r1)          whole pipeline, metamorphic
        kinds = rewrite kind ids applied, flags = per rewrite (has_pic has_usage has_odo filler inside followed)
        o0 / o1 = observation of the original / rewritten copybook (opaque trees),
        l0, l1 = the card images, r0, r1 = reference_format's result on them
        good  = o0 = o1          (the property itself; no model of the clause parser: PARTIAL)
        agree = r0, r1 are what the model computes
        known = code of the first rewrite that is in a known-bad family *)
From Coq Require Import ZArith NArith List Bool.
Import ListNotations.
Require Import SR.Base.Sx SR.Base.Res SR.Model.RefFormat SR.Spec.RefFormat.
Open Scope Z_scope.

Definition as_lines (s : sx) : list line := map as_Ns (as_list s).
Definition of_lines (l : list line) : sx := L (map of_Ns l).

Fixpoint lines_eqb (a b : list line) : bool :=
  match a, b with
  | [], [] => true
  | x :: a', y :: b' => leqb x y && lines_eqb a' b'
  | _, _ => false
  end.

Definition obs_lines (o : sx) : res (list line) :=
  if Z.eqb (as_Z (nth_sx 0 o)) 0 then Ok (as_lines (nth_sx 1 o))
  else match as_Z (nth_sx 1 o) with
       | 1 => Err ValueError
       | 5 => Err RuntimeError
       | _ => Err OtherError
       end.

Definition res_lines_eqb (a b : res (list line)) : bool :=
  match a, b with
  | Ok x, Ok y => lines_eqb x y
  | Err e, Err f => exn_eqb e f
  | _, _ => false
  end.

Definition as_repl (s : sx) : list (line * line) :=
  map (fun p => (as_Ns (nth_sx 0 p), as_Ns (nth_sx 1 p))) (as_list s).

Definition judge_rf (c : sx) : sx :=
  let src := as_lines (nth_sx 1 c) in
  let repl := as_repl (nth_sx 2 c) in
  let obs := obs_lines (nth_sx 3 c) in
  let m := reference_format src repl in
  let sp := spec_reference_format src repl in
  let good := match sp with
              | Some out => res_lines_eqb obs (Ok out)
              | None => true
              end in
  let agree := res_lines_eqb obs m in
  let known := if existsb numbered_directive src then Some 1
               else if existsb slash_comment src then Some 2 else None in
  let branch := match m with Ok out => Z.of_nat (length out) | Err _ => 0 end in
  verdict known good agree branch
    (L [sx_of_res of_lines m; match sp with Some out => L [A 0; of_lines out] | None => L [A 2] end]).

Definition as_entry (s : sx) : entry :=
  {| e_lead := as_Ns (nth_sx 0 s); e_d1 := as_N (nth_sx 1 s); e_d2 := as_N (nth_sx 2 s);
     e_gap := as_Ns (nth_sx 3 s); e_body := as_Ns (nth_sx 4 s); e_term := as_N (nth_sx 5 s) |}.

Definition as_pairs (s : sx) : list (line * line) :=
  map (fun p => (as_Ns (nth_sx 0 p), as_Ns (nth_sx 1 p))) (as_list s).

Fixpoint pairs_eqb (a b : list (line * line)) : bool :=
  match a, b with
  | [], [] => true
  | (x1, x2) :: a', (y1, y2) :: b' => leqb x1 y1 && leqb x2 y2 && pairs_eqb a' b'
  | _, _ => false
  end.

Definition of_pairs (l : list (line * line)) : sx := L (map (fun p => L [of_Ns (fst p); of_Ns (snd p)]) l).

Definition judge_sent (c : sx) : sx :=
  let has := as_bool (nth_sx 1 c) in
  let es := map as_entry (as_list (nth_sx 2 c)) in
  let tail := as_Ns (nth_sx 3 c) in
  let chunks := as_lines (nth_sx 4 c) in
  let o := nth_sx 5 c in
  let ok := Z.eqb (as_Z (nth_sx 0 o)) 0 in
  let obs := as_pairs (nth_sx 1 o) in
  let m := dde_sentences chunks in
  let printed := has && forallb wf_entry es && forallb is_ws tail
                 && leqb (concat chunks) (concat (map print_entry es) ++ tail) in
  let agree := ok && pairs_eqb obs m in
  let good := if printed then ok && pairs_eqb obs (spec_sentences es) else agree in
  verdict None good agree (Z.of_nat (length m) + (if printed then 50 else 0))
    (L [of_pairs m; of_bool printed]).

Definition judge_compact (c : sx) : sx :=
  let s := as_Ns (nth_sx 1 c) in
  let o := nth_sx 2 c in
  let m := compact s in
  let agree := Z.eqb (as_Z (nth_sx 0 o)) 0 && leqb (as_Ns (nth_sx 1 o)) m in
  verdict None agree agree (Z.of_nat (length (split s))) (L [of_Ns m]).

(* rewrite kinds (harness/c12.py KINDS) that are known-bad families, with the site condition *)
Definition known_kind (kind : Z) (fl : sx) : option Z :=
  let has_pic := as_bool (nth_sx 0 fl) in
  let has_usage := as_bool (nth_sx 1 fl) in
  let filler := as_bool (nth_sx 3 fl) in
  let inside := as_bool (nth_sx 4 fl) in
  let followed := as_bool (nth_sx 5 fl) in
  match kind with
  | 25 => if inside then Some 1 else None                     (* numbered directive inside an entry *)
  | 26 => if inside then Some 2 else None                     (* slash comment inside an entry *)
  | 20 => if has_pic || has_usage || filler then Some 3 else None   (* lower case *)
  | 10 => Some 4                                              (* separator glued to a picture string *)
  | 22 => Some 5                                              (* VALUE literal holding a usage word / PIC *)
  | 8 => Some 6                                               (* word continued over two lines *)
  | 29 => Some 7                                              (* INDEXED BY without a KEY phrase *)
  | 15 => if followed then Some 8 else None                   (* KEY ... INDEXED BY x followed by another clause *)
  | _ => None
  end.

Fixpoint first_known (kinds : list Z) (fls : list sx) : option Z :=
  match kinds, fls with
  | k :: ks, f :: fs => match known_kind k f with Some c => Some c | None => first_known ks fs end
  | _, _ => None
  end.

Definition judge_meta (c : sx) : sx :=
  let kinds := as_Zs (nth_sx 1 c) in
  let fls := as_list (nth_sx 2 c) in
  let o0 := nth_sx 3 c in
  let o1 := nth_sx 4 c in
  let l0 := as_lines (nth_sx 5 c) in
  let r0 := obs_lines (nth_sx 6 c) in
  let l1 := as_lines (nth_sx 7 c) in
  let r1 := obs_lines (nth_sx 8 c) in
  let m0 := reference_format l0 [] in
  let m1 := reference_format l1 [] in
  let good := sx_eqb o0 o1 in
  let agree := res_lines_eqb r0 m0 && res_lines_eqb r1 m1 in
  let base_ok := Z.eqb (as_Z (nth_sx 0 o0)) 0 in
  let branch := if base_ok then 100 + hd 0 kinds else 0 in
  verdict (first_known kinds fls) good agree branch
    (L [of_bool good; of_bool (res_lines_eqb r0 m0); of_bool (res_lines_eqb r1 m1)]).

Definition judge (c : sx) : sx :=
  match as_Z (nth_sx 0 c) with
  | 0 => judge_rf c
  | 1 => judge_sent c
  | 2 => judge_compact c
  | 3 => judge_meta c
  | _ => L [A 9; A 0]
  end.
