(* Judge for C11.
   case = (kind mhist mprobe obs_hist obs_fresh immut)
     kind       0 parse probe | 1 load probe | 2 read probe
     mhist      the history at the level of Model/Globals.v, one mop per call of the history, in order
     mprobe     the probe at that level (a list of mops; the LAST one is the call whose result is observed)
       mop      (0 entries)  ParseCopybook; entries = what dde_sentences + clause_dict returned when the call was
                             made: (level name? filler? redefines? pic occ compact-text), x? = () or (string)
                (1)          MakeStandardMaker
                (2)          MakeExtendedMaker
                (3 leaves)   LoadSchema; leaves = type names of the leaves of the document
                (4 leaves)   LoadExtended
                (5)          OtherCall (navigation, print, dump, CSV sheet, ...: nothing modelled is touched)
                (6)          DropNavs
     obs_hist   what the probe returned after the history, in the interpreter that ran the history
     obs_fresh  what the same probe returned in a fresh interpreter
       obs      (digest res): digest = 128-bit digest of the canonical serialisation of everything the probe
                reported (schema documents as JSON with key order / success or exception class / every field's
                start, end, raw bytes and value); res = (0 names) | (1 exn) | (2) : for a parse probe what
                structure() returned (unique names in document order), for a load probe (0 ()) or the exception
     immut      pairs (before after): per document and per loaded Schema used in the history, the digest of its
                serialisation / structural fingerprint taken when it was first seen and after the probe, and
                (1 flag) for  schema.json() is document

   good  = obs_hist = obs_fresh  and every immut pair is equal.
   agree = the model (with the modes of the tree under test) predicts res of obs_hist from mhist ++ mprobe and
           res of obs_fresh from mprobe alone.  Read probes have no model prediction here (that the layout model
           predicts what a navigator reads is the correspondence of C01); they are purely differential. *)
From Coq Require Import ZArith NArith List Bool Arith.
Import ListNotations.
Require Import SR.Base.Sx SR.Base.Res SR.Model.Globals.
Require SR.Model.Structure.
Open Scope Z_scope.

(* ---------------------------------------------------------------- decoding *)
Definition as_str (s : sx) : str := as_Ns s.
Definition as_optstr (s : sx) : option str :=
  match as_list s with [] => None | x :: _ => Some (as_str x) end.
Definition as_lvl (s : sx) : Structure.lvl :=
  match as_Ns s with [a; b] => (a, b) | _ => (0%N, 0%N) end.

Definition entry_of_sx (s : sx) : entry :=
  {| Structure.elv := as_lvl (nth_sx 0 s); Structure.ename := as_optstr (nth_sx 1 s);
     Structure.efill := as_optstr (nth_sx 2 s); Structure.eredef := as_optstr (nth_sx 3 s);
     Structure.epic := as_bool (nth_sx 4 s); Structure.eocc := as_bool (nth_sx 5 s);
     Structure.etext := as_str (nth_sx 6 s) |}.

Definition mop_of_sx (s : sx) : op :=
  let tag := as_Z (nth_sx 0 s) in
  if tag =? 0 then ParseCopybook (map entry_of_sx (as_list (nth_sx 1 s)))
  else if tag =? 1 then MakeStandardMaker
  else if tag =? 2 then MakeExtendedMaker
  else if tag =? 3 then LoadSchema (map as_str (as_list (nth_sx 1 s)))
  else if tag =? 4 then LoadExtended (map as_str (as_list (nth_sx 1 s)))
  else if tag =? 6 then DropNavs
  else OtherCall.

(* ---------------------------------------------------------------- comparing *)
Fixpoint strs_eqb (a b : list str) : bool :=
  match a, b with
  | [], [] => true
  | x :: a', y :: b' => Structure.str_eqb x y && strs_eqb a' b'
  | _, _ => false
  end.

(* does the model output predict the observed res *)
Definition predicts (o : option output) (res : sx) : bool :=
  let tag := as_Z (nth_sx 0 res) in
  match o with
  | Some (ONames (Ok ns)) => (tag =? 0) && strs_eqb ns (map as_str (as_list (nth_sx 1 res)))
  | Some (ONames (Err e)) => (tag =? 1) && (as_Z (nth_sx 1 res) =? exn_code e)
  | Some (OLoad (Ok _)) => (tag =? 0)
  | Some (OLoad (Err e)) => (tag =? 1) && (as_Z (nth_sx 1 res) =? exn_code e)
  | _ => false
  end.

Definition sx_of_output (o : option output) : sx :=
  match o with
  | Some (ONames r) => sx_of_res (fun ns => L (map of_Ns ns)) r
  | Some (OLoad r) => sx_of_res (fun _ => L []) r
  | Some OUnit => L [A 2]
  | Some (ORead _) => L [A 3]
  | None => L [A 4]
  end.

Definition pairs_equal (immut : sx) : bool :=
  forallb (fun p => sx_eqb (nth_sx 0 p) (nth_sx 1 p)) (as_list immut).

Definition is_ext (o : op) : bool :=
  match o with MakeExtendedMaker | LoadExtended _ => true | _ => false end.
Definition has_decimal (ts : list str) : bool := existsb (Structure.str_eqb decimal_name) ts.

Definition probe_branch (kind : Z) (mhist mprobe : list op) : Z :=
  match mhist with
  | [] => 0
  | _ =>
      match last mprobe OtherCall with
      | ParseCopybook es =>
          10 + (if existsb Structure.is_filler es then 1 else 0)
             + (match es with
                | e :: _ => if Structure.lvl_eqb (Structure.elv e) Structure.L01 then 0 else 2
                | [] => 0 end)
      | LoadSchema ts => 20 + (if has_decimal ts then 1 else 0) + (if existsb is_ext mhist then 2 else 0)
      | _ => 30 + kind
      end
  end.

Definition judge (c : sx) : sx :=
  let kind := as_Z (nth_sx 0 c) in
  let mhist := map mop_of_sx (as_list (nth_sx 1 c)) in
  let mprobe := map mop_of_sx (as_list (nth_sx 2 c)) in
  let oh := nth_sx 3 c in
  let of_ := nth_sx 4 c in
  let immut := nth_sx 5 c in
  let pred_hist := last (map Some (outs (run init mhist) mprobe)) None in
  let pred_fresh := last (map Some (outs init mprobe)) None in
  let good := sx_eqb oh of_ && pairs_equal immut in
  let agree :=
    if kind =? 2 then true
    else predicts pred_hist (nth_sx 1 oh) && predicts pred_fresh (nth_sx 1 of_) in
  verdict None good agree (probe_branch kind mhist mprobe)
    (L [sx_of_output pred_hist; sx_of_output pred_fresh; of_bool (sx_eqb oh of_); of_bool (pairs_equal immut)]).
