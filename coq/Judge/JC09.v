(* Judge for C09.

   Wire forms
     text      = list of code points
     value     = (0 text)            a str
               | (1 id text)         any other object: identity tag and its str()   (None = (1 0 'None'))
               | (2)                 the list [None]  (the absent marker of WBNav.name)
     result X  = (0 X) | (1 exception-code)
     rowobs    = (instance values names)   instance = (value ...) the cells of row.instance,
                 values = result (value ...) of row.values(),
                 names = (result value ...) of row.name(k).value() for the probe keys, in order
     read      = result (rowobs ...)        list(sheet.rows()) and the above for every row
   Cases
     (0 fmt written probes read)                              heading-row stream
     (1 fmt written pi written2 probes read probes2 read2)    the same table with permuted columns
     (2 fmt meta data probes load read_ext read_hand)         external schema; load = result ((text pos) ...)
     (3 fmt table ops probes read)                            binding calls ops on one Sheet object, then rows()
     (4 fmt written probes read)                              heading row with a REPEATED name (known finding 1)
   fmt 0 = CSV: the physical sheet is the written table.
   fmt 1 = XLSX: the physical sheet is the written table padded to a rectangle with None
           (Spec.rect_view; the runner writes only non-empty text cells and no empty rows).
   [good] is computed from the written table and Spec/Table.v; [agree] from Model/HeaderRow.v.
   Outside the domain of the property (repeated header names; metadata rows without a text
   name or with repeated names) [good] is vacuous and [agree] covers the delivered rows only.
   Stream 4 is the exception: there a heading row with a repeated name IS judged.  The property says
   that each header names a column and that asking a row for a name returns the cell under that
   header; with two columns of one name [good] therefore demands that every row is delivered (a
   refusal of the whole sheet skips every row), with a value list of one cell per COLUMN, and that
   a name heading several columns answers with an error or with a cell standing under EVERY column
   of that name.  The code
   keeps the last column of a name and drops the others (known finding 1,
   K-duplicate-heading-last-wins): KNOWN only when the heading row has a repeated name AND the
   observation is exactly that behaviour, spelled out here from Spec/DupHeadings.v and not taken from
   the model ([pinned_last_wins]), AND equals the model; anything else on such a sheet is a VIOLATION.
   Answer 9 = the case itself is malformed (a runner defect, not an implementation defect). *)
From Coq Require Import ZArith NArith List Bool Arith.
Import ListNotations.
Require Import SR.Base.Sx SR.Base.Res SR.Spec.Table SR.Spec.DupHeadings SR.Model.HeaderRow.
Open Scope Z_scope.

(* ---------------------------------------------------------------- equality tests *)
Fixpoint list_eqb {T} (eqb : T -> T -> bool) (a b : list T) : bool :=
  match a, b with
  | [], [] => true
  | x :: a', y :: b' => eqb x y && list_eqb eqb a' b'
  | _, _ => false
  end.

Definition cell_eqb (a b : cell) : bool :=
  match a, b with
  | Txt s, Txt t => key_eqb s t
  | Obj i r, Obj j q => N.eqb i j && key_eqb r q
  | _, _ => false
  end.

Definition opt_eqb {T} (eqb : T -> T -> bool) (a b : option T) : bool :=
  match a, b with
  | Some x, Some y => eqb x y
  | None, None => true
  | _, _ => false
  end.

Definition res_eqb {T} (eqb : T -> T -> bool) (a b : res T) : bool :=
  match a, b with
  | Ok x, Ok y => eqb x y
  | Err e, Err f => exn_eqb e f
  | _, _ => false
  end.

Definition value := option cell.
Definition value_eqb : value -> value -> bool := opt_eqb cell_eqb.

Record rowobs := mk_rowobs { o_inst : list value; o_vals : res (list value); o_names : list (res value) }.

Definition rowobs_eqb (a b : rowobs) : bool :=
  list_eqb value_eqb (o_inst a) (o_inst b)
  && res_eqb (list_eqb value_eqb) (o_vals a) (o_vals b)
  && list_eqb (res_eqb value_eqb) (o_names a) (o_names b).

Definition read := res (list rowobs).
Definition read_eqb : read -> read -> bool := res_eqb (list_eqb rowobs_eqb).

(* ---------------------------------------------------------------- decoding *)
Definition exn_of (z : Z) : exn :=
  if z =? 1 then ValueError else if z =? 2 then TypeError else if z =? 3 then IndexError
  else if z =? 4 then KeyError else if z =? 5 then RuntimeError else if z =? 6 then NotImplementedError
  else if z =? 7 then StructError else if z =? 8 then DecimalInvalid else if z =? 9 then DesignError
  else if z =? 10 then AttributeError else if z =? 11 then StopIter else if z =? 12 then AssertionError
  else OtherError.

Definition dec_res {T} (f : sx -> T) (x : sx) : res T :=
  if as_Z (nth_sx 0 x) =? 0 then Ok (f (nth_sx 1 x)) else Err (exn_of (as_Z (nth_sx 1 x))).

Definition dec_value (x : sx) : value :=
  let tag := as_Z (nth_sx 0 x) in
  if tag =? 0 then Some (Txt (as_Ns (nth_sx 1 x)))
  else if tag =? 1 then Some (Obj (as_N (nth_sx 1 x)) (as_Ns (nth_sx 2 x)))
  else None.

Definition dec_cell (x : sx) : cell :=
  match dec_value x with Some c => c | None => Obj 99 [] end.

Definition dec_sheet (x : sx) : sheet := map (fun r => map dec_cell (as_list r)) (as_list x).
Definition dec_keys (x : sx) : list key := map as_Ns (as_list x).

Definition dec_rowobs (x : sx) : rowobs :=
  mk_rowobs (map dec_value (as_list (nth_sx 0 x)))
            (dec_res (fun v => map dec_value (as_list v)) (nth_sx 1 x))
            (map (dec_res dec_value) (as_list (nth_sx 2 x))).

Definition dec_read (x : sx) : read := dec_res (fun v => map dec_rowobs (as_list v)) x.

Definition none_cell : cell := Obj 0 [78; 111; 110; 101]%N.

Definition view (fmt : Z) (written : sheet) : sheet :=
  if fmt =? 0 then written else rect_view none_cell written.

(* ---------------------------------------------------------------- what the model says a run observes *)
Definition model_read (ri : res (option schema * sheet)) (probes : list key) : read :=
  match ri with
  | Err e => Err e
  | Ok (None, _) => Ok []
  | Ok (Some s, rows) =>
      Ok (map (fun r => mk_rowobs (map Some r) (values s r) (map (fun k => nav_name s k r) probes)) rows)
  end.

(* Outside the property's domain (repeated header names) only the rows delivered are compared
   with the model: which of two equal headers wins is not the property's business, and a
   rewrite that changes it must not raise an alarm. *)
Definition strip (r : read) : read :=
  match r with
  | Ok robs => Ok (map (fun ob => mk_rowobs (o_inst ob) (Ok []) []) robs)
  | Err e => Err e
  end.

Definition in_domain_header (phys : sheet) : bool :=
  match phys with
  | [] => true
  | h :: _ => distinct key_eqb (map str_of h)
  end.

Definition agree_header (phys : sheet) (o m : read) : bool :=
  if in_domain_header phys then read_eqb o m else read_eqb (strip o) (strip m).

(* ---------------------------------------------------------------- the property on an observation *)
(* rows delivered = expected rows; per row: value list = cells in header order; every probed
   name that is a header gives the cell under that header *)
Definition good_rows (hk : list key) (expect : sheet) (probes : list key) (o : read) : bool :=
  match o with
  | Err _ => false
  | Ok robs =>
      list_eqb (list_eqb value_eqb) (map o_inst robs) (map (map Some) expect)
      && (if distinct key_eqb hk then
            forallb (fun p : rowobs * row =>
                       let (ob, r) := p in
                       res_eqb (list_eqb value_eqb) (o_vals ob) (Ok (cells_in_header_order (length hk) r))
                       && (length (o_names ob) =? length probes)%nat
                       && forallb (fun q : key * res value =>
                                     match cell_under key_eqb hk (fst q) r with
                                     | Some v => res_eqb value_eqb (snd q) (Ok v)
                                     | None => true
                                     end)
                                  (combine probes (o_names ob)))
                    (combine robs expect)
          else true)
  end.

(* the same for a schema that declares a position for each name (any order, any subset):
   every row delivered; value list = cells at the declared positions in declaration order;
   every probed name that is declared gives the cell at its declared position *)
Definition good_rows_at (decl : list (key * nat)) (expect : sheet) (probes : list key) (o : read) : bool :=
  match o with
  | Err _ => false
  | Ok robs =>
      list_eqb (list_eqb value_eqb) (map o_inst robs) (map (map Some) expect)
      && (if distinct key_eqb (map fst decl) then
            forallb (fun p : rowobs * row =>
                       let (ob, r) := p in
                       res_eqb (list_eqb value_eqb) (o_vals ob) (Ok (cells_at decl r))
                       && (length (o_names ob) =? length probes)%nat
                       && forallb (fun q : key * res value =>
                                     match declared_cell key_eqb decl (fst q) r with
                                     | Some v => res_eqb value_eqb (snd q) (Ok v)
                                     | None => true
                                     end)
                                  (combine probes (o_names ob)))
                    (combine robs expect)
          else true)
  end.

Definition good_header (phys : sheet) (probes : list key) (o : read) : bool :=
  match phys with
  | [] => read_eqb o (Ok [])
  | h :: _ => good_rows (map str_of h) (data_rows phys) probes o
  end.

Definition shape (n : nat) (rows : sheet) : Z :=
  match rows with
  | [] => 0
  | _ => 1 + (if existsb (fun r => (length r <? n)%nat) rows then 1 else 0)
           + (if existsb (fun r => (n <? length r)%nat) rows then 2 else 0)
  end.

Definition branch_header (phys : sheet) : Z :=
  match phys with
  | [] => 0
  | h :: b => shape (length h) b + (if distinct key_eqb (map str_of h) then 0 else 10)
  end.

(* ---------------------------------------------------------------- serialising the model's answer *)
Definition sx_of_value (v : value) : sx :=
  match v with
  | Some (Txt s) => L [A 0; of_Ns s]
  | Some (Obj i r) => L [A 1; of_N i; of_Ns r]
  | None => L [A 2]
  end.

Definition sx_of_read (m : read) : sx :=
  sx_of_res (fun robs =>
    L (map (fun ob => L [L (map sx_of_value (o_inst ob));
                         sx_of_res (fun vs => L (map sx_of_value vs)) (o_vals ob);
                         L (map (sx_of_res sx_of_value) (o_names ob))]) robs)) m.

(* ---------------------------------------------------------------- stream 0: heading row *)
Definition judge_header (c : sx) : sx :=
  let phys := view (as_Z (nth_sx 1 c)) (dec_sheet (nth_sx 2 c)) in
  let probes := dec_keys (nth_sx 3 c) in
  let o := dec_read (nth_sx 4 c) in
  let m := model_read (row_iter HeadingRow None phys) probes in
  verdict None (good_header phys probes o) (agree_header phys o m) (branch_header phys) (L [sx_of_read m]).

(* ---------------------------------------------------------------- stream 1: permuted columns *)
Definition lookup_name (k : key) (probes : list key) (names : list (res value)) : option (res value) :=
  option_map snd (find (fun q : key * res value => key_eqb (fst q) k) (combine probes names)).

Definition same_by_name (probes probes2 : list key) (a b : rowobs) : bool :=
  forallb (fun q : key * res value =>
             match lookup_name (fst q) probes2 (o_names b) with
             | Some v2 => res_eqb value_eqb (snd q) v2
             | None => false
             end)
          (combine probes (o_names a)).

Definition judge_perm (c : sx) : sx :=
  let fmt := as_Z (nth_sx 1 c) in
  let phys := view fmt (dec_sheet (nth_sx 2 c)) in
  let pi := as_nats (nth_sx 3 c) in
  let phys2 := view fmt (dec_sheet (nth_sx 4 c)) in
  let probes := dec_keys (nth_sx 5 c) in
  let o := dec_read (nth_sx 6 c) in
  let probes2 := dec_keys (nth_sx 7 c) in
  let o2 := dec_read (nth_sx 8 c) in
  let wellformed :=
    match phys, phys2 with
    | h :: b, h2 :: b2 =>
        is_perm pi (length h) && (length h2 =? length h)%nat
        && reordered cell_eqb pi h h2
        && (length b =? length b2)%nat
        && forallb (fun p : row * row => reordered cell_eqb pi (fst p) (snd p)) (combine b b2)
    | _, _ => false
    end in
  let m := model_read (row_iter HeadingRow None phys) probes in
  let m2 := model_read (row_iter HeadingRow None phys2) probes2 in
  let hk := match phys with h :: _ => map str_of h | [] => [] end in
  let cross :=
    match o, o2 with
    | Ok ra, Ok rb =>
        (length ra =? length rb)%nat
        && (if distinct key_eqb hk
            then forallb (fun p : rowobs * rowobs => same_by_name probes probes2 (fst p) (snd p)) (combine ra rb)
            else true)
    | _, _ => false
    end in
  let good := good_header phys probes o && good_header phys2 probes2 o2 && cross in
  let agree := agree_header phys o m && agree_header phys2 o2 m2 in
  let br := 20 + branch_header phys in
  if wellformed then verdict None good agree br (L [sx_of_read m; sx_of_read m2])
  else L [A 9; A br; L []].

(* ---------------------------------------------------------------- stream 2: external schema *)
Definition load_obs := res (list (key * option nat)).

Definition dec_load (x : sx) : load_obs :=
  dec_res (fun v => map (fun it => (as_Ns (nth_sx 0 it),
                                    let p := as_Z (nth_sx 1 it) in
                                    if p <? 0 then None else Some (Z.to_nat p))) (as_list v)) x.

Definition item_eqb (a b : key * option nat) : bool :=
  key_eqb (fst a) (fst b) && opt_eqb Nat.eqb (snd a) (snd b).

Definition load_eqb : load_obs -> load_obs -> bool := res_eqb (list_eqb item_eqb).

Definition judge_external (c : sx) : sx :=
  let fmt := as_Z (nth_sx 1 c) in
  let meta := view fmt (dec_sheet (nth_sx 2 c)) in
  let data := view fmt (dec_sheet (nth_sx 3 c)) in
  let probes := dec_keys (nth_sx 4 c) in
  let lo := dec_load (nth_sx 5 c) in
  let oe := dec_read (nth_sx 6 c) in
  let oh := dec_read (nth_sx 7 c) in
  let ml := ext_load_meta meta in
  let in_domain :=
    match first_cells meta with
    | Some cs => list_eqb cell_eqb cs (map Txt probes) && distinct key_eqb probes
    | None => false
    end in
  let n := length probes in
  let loaded := match lo with Ok _ => true | Err _ => false end in
  let agree_load :=
    load_eqb lo (match ml with Ok s => Ok (map (fun e => (e_key e, e_pos e)) s) | Err e => Err e end) in
  let agree_reads :=
    match ml with
    | Ok s =>
        read_eqb oe (model_read (row_iter NoLoader (Some s) data) probes)
        && read_eqb oh (model_read (row_iter NoLoader (Some (hand_schema probes)) data) probes)
    | Err _ => negb loaded
    end in
  let good :=
    if in_domain then
      load_eqb lo (Ok (map (fun p => (fst p, Some (snd p))) (with_positions probes)))
      && good_rows probes data probes oe          (* every row, cells in name order, i-th name = i-th cell *)
      && read_eqb oe oh                            (* identical to the hand-written schema *)
    else true in
  let br := if loaded then 40 + shape n data + (if in_domain then 0 else 10) else 60 in
  verdict None good (if in_domain then agree_load && agree_reads else true) br
    (L [match ml with
        | Ok s => L [A 0; L (map (fun e => L [of_Ns (e_key e);
                                              match e_pos e with Some p => of_nat p | None => A (-1) end]) s)]
        | Err e => L [A 1; A (exn_code e)]
        end]).

(* ---------------------------------------------------------------- stream 3: binding calls on one Sheet *)
(* op = (0 l)            set_schema_loader: l = 0 SchemaLoader(), 1 HeadingRowSchemaLoader()
      | (1 kind names [positions])   set_schema: kind 0 = hand-written without positions, 1 = hand-written
                         with positions 0.., 2 = loaded by ExternalSchemaLoader from rows (name, d, string),
                         3 = hand-written, every name with the explicit position given (any order, any subset) *)
Inductive op := OpLoader (l : loader) | OpSchema (kind : Z) (decl : list (key * nat)).

(* kinds 0..2 number the names in order; kind 3 carries its own positions *)
Definition dec_op (x : sx) : op :=
  if as_Z (nth_sx 0 x) =? 0
  then OpLoader (if as_Z (nth_sx 1 x) =? 0 then NoLoader else HeadingRow)
  else let kind := as_Z (nth_sx 1 x) in
       let names := dec_keys (nth_sx 2 x) in
       OpSchema kind (if kind =? 3 then combine names (as_nats (nth_sx 3 x)) else with_positions names).

Definition schema_of_op (kind : Z) (decl : list (key * nat)) : option schema :=
  if kind =? 0 then Some (hand_schema (map fst decl))
  else if (kind =? 1) || (kind =? 3) then Some (hand_schema_at decl)
  else match ext_load_meta (map (fun n => [Txt n; Txt [100]%N; Txt [115; 116; 114; 105; 110; 103]%N]) (map fst decl)) with
       | Ok s => Some s
       | Err _ => None
       end.

Definition binding_of_op (o : op) : option binding :=
  match o with
  | OpLoader l => Some (SetLoader l)
  | OpSchema kind decl => option_map SetSchema (schema_of_op kind decl)
  end.

Fixpoint all_some {T} (l : list (option T)) : option (list T) :=
  match l with
  | [] => Some []
  | Some x :: t => option_map (cons x) (all_some t)
  | None :: _ => None
  end.

(* the declarations bound by the latest set_schema call *)
Definition latest_decl (ops : list op) : option (list (key * nat)) :=
  fold_left (fun acc o => match o with OpSchema _ decl => Some decl | OpLoader _ => acc end) ops None.

(* the last call decides: a schema call -> every physical row, each name reading the cell at its
   declared position; a heading-row loader call -> the heading-row property; a do-nothing loader
   call -> the latest schema, every row *)
Definition good_binding (ops : list op) (phys : sheet) (probes : list key) (o : read) : bool :=
  match last ops (OpLoader NoLoader) with
  | OpSchema _ decl => good_rows_at decl phys probes o
  | OpLoader HeadingRow => good_header phys probes o
  | OpLoader NoLoader =>
      match latest_decl ops with
      | Some decl => good_rows_at decl phys probes o
      | None => true
      end
  end.

Definition judge_binding (c : sx) : sx :=
  let fmt := as_Z (nth_sx 1 c) in
  let phys := view fmt (dec_sheet (nth_sx 2 c)) in
  let ops := map dec_op (as_list (nth_sx 3 c)) in
  let probes := dec_keys (nth_sx 4 c) in
  let o := dec_read (nth_sx 5 c) in
  match all_some (map binding_of_op ops) with
  | None => L [A 9; A 80; L []]
  | Some bs =>
      let st := bind_all bs in
      let m := model_read (read_after bs phys) probes in
      let dom_names :=
        forallb (fun x => match x with OpSchema _ decl => distinct key_eqb (map fst decl) | OpLoader _ => true end) ops in
      let bound := match st with (NoLoader, None) => false | _ => true end in
      let dom := dom_names && bound
                 && match fst st with HeadingRow => in_domain_header phys | NoLoader => true end in
      let agree := if dom then read_eqb o m
                   else if bound then read_eqb (strip o) (strip m) else true in
      let good := if dom_names then good_binding ops phys probes o else true in
      let kind := match last ops (OpLoader NoLoader) with
                  | OpSchema _ _ => 0 | OpLoader HeadingRow => 1 | OpLoader NoLoader => 2 end in
      let br := 80 + match m with Ok (_ :: _) => 1 + kind | _ => 0 end in
      verdict None good agree br (L [sx_of_read m])
  end.

(* ---------------------------------------------------------------- stream 4: a repeated heading name *)
(* known finding 1, spelled out without the model: every row after the first is delivered; a name
   reads the cell under the LAST column headed by it (absent marker when the row is too short for
   that column, KeyError when no column is headed by it); the value list has one value per DISTINCT
   name, in order of first occurrence, each read from the last column of that name *)
Definition pinned_last_wins (phys : sheet) (probes : list key) : read :=
  match phys with
  | [] => Ok []
  | h :: body =>
      let hs := map str_of h in
      Ok (map (fun r => mk_rowobs (map Some r)
                                  (Ok (last_wins_values key_eqb hs r))
                                  (map (fun k => match last_wins_value key_eqb hs k r with
                                                 | Some v => Ok v
                                                 | None => Err KeyError
                                                 end) probes)) body)
  end.

(* what the property leaves room for when two columns bear one name: every row is delivered (no row
   skipped, no refusal of the sheet: C09_rows), its value list has one cell per COLUMN, a name that
   heads one column answers with the cell under it, and a name that heads several columns answers
   with an error or with a cell that stands under every one of them *)
Definition good_dup (h : row) (body : sheet) (probes : list key) (o : read) : bool :=
  let hs := map str_of h in
  match o with
  | Err _ => false
  | Ok robs =>
      list_eqb (list_eqb value_eqb) (map o_inst robs) (map (map Some) body)
      && forallb (fun p : rowobs * row =>
                    let (ob, r) := p in
                    res_eqb (list_eqb value_eqb) (o_vals ob) (Ok (cells_in_header_order (length hs) r))
                    && (length (o_names ob) =? length probes)%nat
                    && forallb (fun q : key * res value =>
                                  match all_indices key_eqb (fst q) hs, snd q with
                                  | _ :: _ :: _, Err _ => true
                                  | cols, ans => forallb (fun i => res_eqb value_eqb ans (Ok (nth_error r i))) cols
                                  end)
                               (combine probes (o_names ob)))
                 (combine robs body)
  end.

Definition judge_dup (c : sx) : sx :=
  let phys := view (as_Z (nth_sx 1 c)) (dec_sheet (nth_sx 2 c)) in
  let probes := dec_keys (nth_sx 3 c) in
  let o := dec_read (nth_sx 4 c) in
  let m := model_read (row_iter HeadingRow None phys) probes in
  match phys with
  | h :: body =>
      if repeated key_eqb (map str_of h) then
        verdict (if read_eqb o (pinned_last_wins phys probes) then Some 1 else None)
                (good_dup h body probes o) (read_eqb o m) (100 + shape (length h) body)
                (L [sx_of_read m])
      else verdict None (good_header phys probes o) (read_eqb o m) (branch_header phys) (L [sx_of_read m])
  | [] => verdict None (good_header phys probes o) (read_eqb o m) 0 (L [sx_of_read m])
  end.

Definition judge (c : sx) : sx :=
  let stream := as_Z (nth_sx 0 c) in
  if stream =? 0 then judge_header c
  else if stream =? 1 then judge_perm c
  else if stream =? 2 then judge_external c
  else if stream =? 3 then judge_binding c
  else if stream =? 4 then judge_dup c
  else L [A 9; A (-1); L []].
