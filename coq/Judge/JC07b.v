(* Judge for C07b (the copybook parser end to end on RAW TEXT; a second engine of C07).

   case = (2 text record schema top nav)  stream text-nav: from the text to locations and decoded values (Judge/JTextNav.v)
        | (0 text obs)                    any text: a copybook of the repository, a printed copybook, an edited one
        | (1 strict text intended obs)    a copybook printed from an abstract forest (harness/copybook_gen.py);
                                          intended = the printed entries, as in Judge/JC07.v
     text  code points of the copybook
     obs   (0 (doc ...)) | (1 exception code): list(schema_iter(io.StringIO(text))), every document serialised completely
           and in key order:  doc = (0 code-points) string | (1 n) integer | (2 ((key doc) ...)) object | (3 (doc ...)) list
                                    | (9) anything else
   agree   obs = Model/Pipeline.v schemas_of_text text, compared in wire form.  An Unmodelled outcome of the model is a
           skip (PASS, branch + 64).
   good    kind 0, and kind 1 with strict = 0: there is no property predicate for arbitrary text: true (a disagreement is
           verdict 3);
           kind 1 with strict = 1 (the generator stays inside the well-formed domain and outside every known trigger):
           the OBSERVED documents define every kept entry of the intended copybook exactly once, in order, nested as the
           levels nest, titled by its name - decided by Spec/Dde.v through Judge/JC07.v (skel = skel_tree of the forest the
           model of structure() builds from the intended entries; C07_structure ties that forest to the specification) - AND
           they are exactly the documents of the REDEFINES-aware pure specification Spec/Copybook.v docs_r on that forest
           (every keyword, the oneOf of a redefined item where it stands).
           A strict case outside the well-formed domain is answered (9 8): the clean stream left its domain.
   branch  entries: 0 none, 1 one, 2 up to five, 3 more;  + 4 some REDEFINES, + 8 some OCCURS, + 16 some DEPENDING ON,
           + 32 the model raises, + 64 Unmodelled.  Trivial = no entry. *)
From Coq Require Import ZArith NArith List Bool Arith.
Import ListNotations.
Require Import SR.Base.Sx SR.Base.Res SR.Model.Pipeline.
Require SR.Spec.Copybook.
Require SR.Model.Structure SR.Judge.JC07 SR.Judge.JTextNav.
Open Scope Z_scope.

(* ---- wire form of documents ---- *)
Fixpoint sx_doc (d : jdoc) : sx :=
  match d with
  | JStr s => L [A 0; of_Ns s]
  | JInt n => L [A 1; of_N n]
  | JObj kvs => L [A 2; L (map (fun kv => L [of_Ns (fst kv); sx_doc (snd kv)]) kvs)]
  | JArr l => L [A 3; L (map sx_doc l)]
  end.

Fixpoint doc_of_sx (s : sx) : jdoc :=
  match s with
  | L (A 0 :: cps :: _) => JStr (as_Ns cps)
  | L (A 1 :: n :: _) => JInt (as_N n)
  | L (A 2 :: L kvs :: _) =>
      JObj (map (fun kv => match kv with
                           | L (k :: v :: _) => (as_Ns k, doc_of_sx v)
                           | _ => ([], JInt 0)
                           end) kvs)
  | L (A 3 :: L l :: _) => JArr (map doc_of_sx l)
  | _ => JInt 0
  end.

Definition sx_outcome (o : outcome) : sx :=
  match o with
  | Done r => sx_of_res (fun docs => L (map sx_doc docs)) r
  | Unmodelled w => L [A 8; of_N w]
  end.

(* ---- a document as the shape Judge/JC07.v reads (kind, title, anchor, cobol, ordered properties) ---- *)
Fixpoint jget (key : str) (kvs : list (str * jdoc)) : option jdoc :=
  match kvs with
  | [] => None
  | (k, v) :: r => if SR.Model.Structure.str_eqb k key then Some v else jget key r
  end.

Definition jstr (o : option jdoc) : option str := match o with Some (JStr s) => Some s | _ => None end.
Definition jprops (o : option jdoc) : list (str * jdoc) := match o with Some (JObj kvs) => kvs | _ => [] end.

(* bottom-up: for every value its shape, itself read as a property map, the property map under its properties key,
   and (a list) the shapes of its elements *)
Record cv := { c_node : SR.Model.Structure.snode; c_map : list (str * SR.Model.Structure.snode); c_props : list (str * SR.Model.Structure.snode); c_elems : list SR.Model.Structure.snode }.

Fixpoint cget (key : str) (l : list (str * cv)) : option cv :=
  match l with
  | [] => None
  | (k, v) :: r => if SR.Model.Structure.str_eqb k key then Some v else cget key r
  end.

Definition no_shape : SR.Model.Structure.snode := SR.Model.Structure.SN 9 None None None [].

Fixpoint conv (d : jdoc) : cv :=
  match d with
  | JObj kvs =>
      let sub := map (fun kv => (fst kv, conv (snd kv))) kvs in
      let title := jstr (jget k_title kvs) in
      let cobol := jstr (jget k_cobol kvs) in
      let anchor := jstr (jget k_anchor kvs) in
      let ty := jstr (jget k_type kvs) in
      let props := match cget k_properties sub with Some v => c_map v | None => [] end in
      let node :=
        match cget k_oneOf sub with
        | Some one => SR.Model.Structure.SN 3 title anchor cobol (map (fun a => ([], a)) (c_elems one))
        | None =>
            match jget k_ref kvs, ty with
            | Some r, None => SR.Model.Structure.SN 4 title (jstr (Some r)) cobol []
            | _, _ =>
                if optstr_eqb ty (Some v_array)
                then SR.Model.Structure.SN 1 title anchor cobol (match cget k_items sub with Some v => c_props v | None => [] end)
                else if optstr_eqb ty (Some v_object) then SR.Model.Structure.SN 0 title anchor cobol props
                else SR.Model.Structure.SN 2 title anchor cobol []
            end
        end in
      {| c_node := node; c_map := map (fun kv => (fst kv, c_node (snd kv))) sub; c_props := props; c_elems := [] |}
  | JArr l => {| c_node := no_shape; c_map := []; c_props := []; c_elems := map (fun x => c_node (conv x)) l |}
  | _ => {| c_node := no_shape; c_map := []; c_props := []; c_elems := [] |}
  end.

Definition snode_of_doc (d : jdoc) : SR.Model.Structure.snode := c_node (conv d).

(* ---- the class of the text, from the model's reading of it ---- *)
Definition text_infos (text : str) : list info :=
  match sentences_of_text text with
  | Ok ss => fst (infos ss)
  | Err _ => []
  end.

Definition class_of (text : str) (o : outcome) : Z :=
  let xs := text_infos text in
  let n := length xs in
  (match n with O => 0 | S O => 1 | _ => if (n <=? 5)%nat then 2 else 3 end)
  + (if existsb (fun x => is_some (SR.Model.Structure.eredef (i_entry x))) xs then 4 else 0)
  + (if existsb (fun x => SR.Model.Structure.eocc (i_entry x)) xs then 8 else 0)
  + (if existsb (fun x => is_some (i_dep x)) xs then 16 else 0)
  + (match o with Done (Ok _) => 0 | Done (Err _) => 32 | Unmodelled _ => 64 end).

Definition res_ok_sx (o : sx) : bool := Z.eqb (as_Z (nth_sx 0 o)) 0.

Definition judge_text (text : str) (obs : sx) (good : bool) (extra : sx) : sx :=
  let m := schemas_of_text text in
  let branch := class_of text m in
  match m with
  | Unmodelled _ => L [A 0; A branch]
  | Done _ =>
      let agree := sx_eqb obs (sx_outcome m) in
      verdict None good agree branch (L [sx_outcome m; extra])
  end.

Definition judge (c : sx) : sx :=
  match as_Z (nth_sx 0 c) with
  | 0 => judge_text (as_Ns (nth_sx 1 c)) (nth_sx 2 c) true (L [])
  | 1 =>
      let strict := as_bool (nth_sx 1 c) in
      let text := as_Ns (nth_sx 2 c) in
      let obs := nth_sx 4 c in
      if negb strict then judge_text text obs true (L [])
      else
        let intended := map SR.Judge.JC07.entry_of_sx (as_list (nth_sx 3 c)) in
        let mf := SR.Model.Structure.structure intended in
        let mforest := match mf with Ok f => f | Err _ => [] end in
        if negb (is_ok mf && SR.Judge.JC07.wf_copybook intended mforest) then L [A 9; A 8]
        else
          let docs := map doc_of_sx (as_list (nth_sx 1 obs)) in
          let skel_ok := sx_eqb (L (map (fun d => SR.Judge.JC07.skel (snode_of_doc d)) docs)) (L (map SR.Judge.JC07.skel_tree mforest)) in
          (* the model's own reading of the text against the printed entries (what C07b_entries states) *)
          let infos := text_infos text in
          let layerA := SR.Judge.JC07.entries_sim intended (map i_entry infos) in
          (* the REDEFINES-aware document specification (Spec/Copybook.v docs_r) on the intended forest with the clause
             values attached: the observation must be exactly these documents *)
          let spec := match annot_forest mforest (kept_infos infos) with
                      | Some xf => Some (to_outcome (SR.Spec.Copybook.docs_r xf))
                      | None => None
                      end in
          let spec_ok := match spec with Some o => sx_eqb obs (sx_outcome o) | None => false end in
          let good := res_ok_sx obs && skel_ok && spec_ok in
          judge_text text obs good (L [of_bool skel_ok; of_bool layerA; of_bool spec_ok])
  | 2 => SR.Judge.JTextNav.judge_nav c
  | _ => L [A 9; A 0]
  end.
