(* Model of the conversion helpers of src/stingray/schema_instance.py on an argument of ANY of the
   classes of Spec/ConversionArg.v [pyval], i.e. of what the builtins the helpers call do with it:

     digit_string(size, value)      int(value)      then Model/Conversion.v as before
     decimal_places(digits, value)  Decimal(value)  then quantize as before
     CONVERSION[key](value)         bool / int / float / str / Decimal / the two lambdas

   int(str)      longobject.c PyLong_FromString (base 10) behind unicodeobject.c
                 _PyUnicode_TransformDecimalAndSpaceToASCII: every code point from 127 up becomes a blank
                 (Unicode white space), an ASCII digit (Unicode decimal digit) or a question mark; then
                 ASCII white space (9-13, 32; NOT 28-31) is skipped, one sign, no leading underscore, the
                 digit loop with its previous-character rule for underscores, at least one digit, trailing
                 white space, nothing else; more than 4300 digits is ValueError too.  Every failure is
                 ValueError.  [int_of_str] is proved equal to the documented grammar (Proofs/ConversionArgP.v).
   float(str)    the same transformation, ASCII white space stripped at both ends, pystrtod.c
                 _Py_string_to_number_with_underscores (an underscore only between two digits), then one sign
                 and inf / infinity / nan in any case, or digits [. digits] with a digit somewhere and an
                 optional exponent e [sign] digits.  Never OverflowError (1e400 is inf).
   Decimal(str)  _decimal.c numeric_as_ascii: Unicode white space (28-31 included) stripped at both ends, EVERY
                 underscore dropped, digits to ASCII; libmpdec mpd_qset_string: sign, nan / snan with optional
                 digits, inf / infinity, or digits [. digits] [e [sign] digits]; the exact constructor then
                 refuses what the widest context cannot hold (adjusted exponent above 999999999999999999,
                 exponent below -1999999999999999997: 64-bit libmpdec).  Every failure is InvalidOperation.
   float(int), float(Fraction)   OverflowError from 2^1024 - 2^970 on (round half even to 53 bits).
   str(int), str(Fraction)       ValueError beyond 4300 digits.

   The two character tables are Gen/UnicodeParams.v, printed from the running CPython.
   Values: float results and str(float) are not described ([conversion_value] says None there).
   No proofs in this file. *)
From Coq Require Import ZArith NArith List Bool.
Import ListNotations.
Require Import SR.Base.Res SR.Spec.Conversion SR.Spec.ConversionArg SR.Gen.ConversionParams
  SR.Gen.ConversionBodyParams SR.Gen.UnicodeParams SR.Model.Conversion.
Open Scope Z_scope.

(* ---------------- characters ---------------- *)

Definition ascii_space (c : N) : bool := (((9 <=? c) && (c <=? 13)) || (c =? 32))%N.      (* Py_ISSPACE *)

Definition unicode_space (c : N) : bool := existsb (N.eqb c) unicode_spaces.                (* Py_UNICODE_ISSPACE *)

(* Py_UNICODE_TODECIMAL *)
Definition unicode_decimal (c : N) : option N :=
  match find (fun z => (z <=? c) && (c <? z + 10))%N unicode_digit_zeros with
  | Some z => Some (c - z)%N
  | None => None
  end.

(* _PyUnicode_TransformDecimalAndSpaceToASCII, one character (63 is the question mark) *)
Definition to_ascii (c : N) : N :=
  if (c <? 127)%N then c
  else if unicode_space c then 32%N
  else match unicode_decimal c with Some d => (48 + d)%N | None => 63%N end.

(* what that makes of the documented character classes: the value of a digit character and the white
   space of int() and float() *)
Definition py_digit_value (c : N) : option Z :=
  if (c <? 127)%N then (if is_digit c then Some (Z.of_N c - 48) else None)
  else if unicode_space c then None
  else match unicode_decimal c with Some d => Some (Z.of_N d) | None => None end.

Definition py_int_space (c : N) : bool := if (c <? 127)%N then ascii_space c else unicode_space c.

(* ---------------- int(str) ---------------- *)

Fixpoint drop_spaces (s : list N) : list N :=
  match s with
  | c :: t => if ascii_space c then drop_spaces t else s
  | [] => []
  end.

(* the digit loop: [prev] the previous character (0 before the first), [acc] the value and [nd] the number
   of digits so far; None on an underscore after an underscore or before a character that is neither *)
Fixpoint scan_digits (s : list N) (prev : N) (acc nd : Z) : option (Z * Z * list N) :=
  match s with
  | c :: t =>
      if is_digit c then scan_digits t c (10 * acc + (Z.of_N c - 48)) (nd + 1)
      else if (c =? 95)%N then (if (prev =? 95)%N then None else scan_digits t c acc nd)
      else if (prev =? 95)%N then None else Some (acc, nd, s)
  | [] => if (prev =? 95)%N then None else Some (acc, nd, [])
  end.

(* one optional sign *)
Definition split_sign (a : list N) : bool * list N :=
  match a with
  | c :: t => if (c =? 43)%N then (false, t) else if (c =? 45)%N then (true, t) else (false, a)
  | [] => (false, [])
  end.

Definition starts_with_underscore (b : list N) : bool :=
  match b with c :: _ => (c =? 95)%N | [] => false end.

Definition int_of_ascii (s : list N) : res Z :=
  let (negative, b) := split_sign (drop_spaces s) in
  if starts_with_underscore b then Err ValueError                 (* may not start with an underscore *)
  else
    match scan_digits b 0 0 0 with
    | None => Err ValueError
    | Some (v, nd, rest) =>
        if nd =? 0 then Err ValueError                            (* no digit *)
        else if int_max_str_digits <? nd then Err ValueError      (* Exceeds the limit (4300 digits) *)
        else match drop_spaces rest with
             | [] => Ok (if negative then - v else v)
             | _ :: _ => Err ValueError
             end
    end.

Definition int_of_str (s : list N) : res Z := int_of_ascii (map to_ascii s).

(* int(value) *)
Definition int_of_val (a : pyval) : res Z :=
  match a with
  | PNone => Err TypeError
  | PBool b => Ok (if b then 1 else 0)
  | PInt z => Ok z
  | PFloat x | PDec x => Ok (int_of_dec x)
  | PFloatNan | PDecNan _ => Err ValueError
  | PFloatInf _ | PDecInf _ => Err OverflowError
  | PStr s => int_of_str s
  | PFrac n d => Ok (Z.quot n (Z.pos d))
  end.

(* ---------------- digit_string on any argument ---------------- *)

Definition dec_of_int (z : Z) : dec := mkdec (z <? 0) (Z.abs_N z) 0.

(* the finite numeric classes as an exact decimal (what Model/Conversion.v works on) *)
Definition dec_of_val (a : pyval) : option dec :=
  match a with
  | PBool b => Some (mkdec false (if b then 1 else 0)%N 0)
  | PInt z => Some (dec_of_int z)
  | PFloat x | PDec x => Some x
  | _ => None
  end.

(* str(F(value)); for the source as it is (PreInt) every class is described, for the other values of the
   parameter only the finite numeric ones *)
Definition pre_text_v (p : pre) (a : pyval) : res (list N) :=
  match p with
  | PreInt => bind (int_of_val a) str_int
  | _ => match dec_of_val a with Some x => pre_text p x | None => Err OtherError end
  end.

Definition digit_string_v (size : nat) (a : pyval) : res (list N) :=
  bind (pre_text_v ds_pre a)
       (fun s => Ok (py_slice size ds_slice_lo ds_slice_hi (padded ds_pad_side (padding ds_pad_char ds_pad_extra size) s))).

(* ---------------- float(str) ---------------- *)

Fixpoint span_digits (s : list N) : list N * list N :=
  match s with
  | c :: t => if is_digit c then let (a, b) := span_digits t in (c :: a, b) else ([], s)
  | [] => ([], [])
  end.

Definition lower (c : N) : N := if ((65 <=? c) && (c <=? 90))%N then (c + 32)%N else c.

Fixpoint text_eqb (a b : list N) : bool :=
  match a, b with
  | [], [] => true
  | x :: a', y :: b' => (x =? y)%N && text_eqb a' b'
  | _, _ => false
  end.

Fixpoint starts_with (p s : list N) : option (list N) :=
  match p, s with
  | [], _ => Some s
  | x :: p', y :: s' => if (x =? y)%N then starts_with p' s' else None
  | _ :: _, [] => None
  end.

Definition t_inf : list N := [105; 110; 102]%N.
Definition t_infinity : list N := [105; 110; 102; 105; 110; 105; 116; 121]%N.
Definition t_nan : list N := [110; 97; 110]%N.
Definition t_snan : list N := [115; 110; 97; 110]%N.

Definition unsigned (s : list N) : list N :=
  match s with
  | 43%N :: t | 45%N :: t => t
  | _ => s
  end.

Definition is_nil {A} (l : list A) : bool := match l with [] => true | _ => false end.

(* _Py_string_to_number_with_underscores: an underscore only after a digit and before a digit; the text
   without them *)
Fixpoint strip_underscores (s : list N) (prev : N) : option (list N) :=
  match s with
  | [] => if (prev =? 95)%N then None else Some []
  | c :: t =>
      if (c =? 95)%N then (if is_digit prev then strip_underscores t c else None)
      else if (prev =? 95)%N && negb (is_digit c) then None
      else option_map (cons c) (strip_underscores t c)
  end.

(* digits [. digits] with at least one digit, then nothing or e [sign] digits *)
Definition number_shape (s : list N) : option (list N * list N * option (bool * list N)) :=
  let (i, r1) := span_digits s in
  let (f, r2) := match r1 with 46%N :: t => span_digits t | _ => ([], r1) end in
  if is_nil i && is_nil f then None
  else match r2 with
       | [] => Some (i, f, None)
       | e :: t =>
           if ((e =? 101) || (e =? 69))%N then
             let (x, r3) := span_digits (unsigned t) in
             if is_nil x || negb (is_nil r3) then None
             else Some (i, f, Some (match t with 45%N :: _ => true | _ => false end, x))
           else None
       end.

Definition float_ascii_ok (s : list N) : bool :=
  let b := unsigned s in
  let l := map lower b in
  text_eqb l t_inf || text_eqb l t_infinity || text_eqb l t_nan
  || match number_shape b with Some _ => true | None => false end.

Definition rstrip (s : list N) : list N := rev (drop_spaces (rev s)).

Definition float_str_ok (s : list N) : bool :=
  match strip_underscores (rstrip (drop_spaces (map to_ascii s))) 0 with
  | Some b => float_ascii_ok b
  | None => false
  end.

(* ---------------- Decimal(str) ---------------- *)

(* numeric_as_ascii after the strip: None is the syntax error of a character that is none of the above *)
Fixpoint dec_ascii (s : list N) : option (list N) :=
  match s with
  | [] => Some []
  | c :: t =>
      if (c =? 95)%N then dec_ascii t
      else if ((0 <? c) && (c <=? 127))%N then option_map (cons c) (dec_ascii t)
      else if unicode_space c then option_map (cons 32%N) (dec_ascii t)
      else match unicode_decimal c with
           | Some d => option_map (cons (48 + d)%N) (dec_ascii t)
           | None => None
           end
  end.

Fixpoint drop_uspaces (s : list N) : list N :=
  match s with
  | c :: t => if unicode_space c then drop_uspaces t else s
  | [] => []
  end.

Definition max_emax : Z := 999999999999999999.                  (* MPD_MAX_EMAX = MPD_MAX_PREC, 64 bit *)
Definition max_etiny : Z := - max_emax - (max_emax - 1).

(* number of significant digits of a coefficient written as ASCII digits (1 for zero) *)
Fixpoint drop_zeros (s : list N) : list N :=
  match s with
  | 48%N :: t => drop_zeros t
  | _ => s
  end.

Definition sig_digits (s : list N) : Z :=
  match drop_zeros s with
  | [] => 1
  | l => Z.of_nat (length l)
  end.

(* mpd_qset_string on the ASCII text, then the exactness test of the constructor *)
Definition decimal_of_ascii (s : list N) : res pyval :=
  let negative := match s with 45%N :: _ => true | _ => false end in
  let b := unsigned s in
  let l := map lower b in
  match starts_with t_nan l, starts_with t_snan l with
  | Some payload, _ => if forallb is_digit payload then Ok (PDecNan false) else Err DecimalInvalid
  | None, Some payload => if forallb is_digit payload then Ok (PDecNan true) else Err DecimalInvalid
  | None, None =>
      if text_eqb l t_inf || text_eqb l t_infinity then Ok (PDecInf negative)
      else match number_shape b with
           | None => Err DecimalInvalid
           | Some (i, f, ex) =>
               let c := dval (i ++ f) in
               let e := match ex with
                        | None => 0
                        | Some (eneg, x) => if eneg then - dval x else dval x
                        end - Z.of_nat (length f) in
               if (max_emax <? e + sig_digits (i ++ f) - 1) || (e <? max_etiny) then Err DecimalInvalid
               else Ok (PDec (mkdec negative (Z.to_N c) e))
           end
  end.

Definition decimal_of_str (s : list N) : res pyval :=
  match dec_ascii (rev (drop_uspaces (rev (drop_uspaces s)))) with
  | Some a => decimal_of_ascii a
  | None => Err DecimalInvalid
  end.

Definition decimal_str_ok (s : list N) : bool := is_ok (decimal_of_str s).

(* Decimal(value) *)
Definition decimal_of_val (a : pyval) : res pyval :=
  match a with
  | PNone | PFrac _ _ => Err TypeError
  | PBool b => Ok (PDec (mkdec false (if b then 1 else 0)%N 0))
  | PInt z => Ok (PDec (dec_of_int z))
  | PFloat x | PDec x => Ok (PDec x)
  | PFloatNan => Ok (PDecNan false)
  | PFloatInf n | PDecInf n => Ok (PDecInf n)
  | PDecNan sg => Ok (PDecNan sg)
  | PStr s => decimal_of_str s
  end.

(* ---------------- decimal_places on any argument ---------------- *)

(* the quantum is computed first, then Decimal(value), then quantize: a quiet NaN passes through, a
   signalling NaN and an infinity are InvalidOperation *)
Definition decimal_places_v (digits : Z) (a : pyval) : res pyval :=
  match dp_ctx, dp_via with
  | CtxDefault, ViaDirect =>
      bind (quantum_exp digits) (fun e =>
      bind (decimal_of_val a) (fun v =>
        match v with
        | PDec x => bind (quantize x e) (fun r => Ok (PDec r))
        | PDecNan false => Ok (PDecNan false)
        | _ => Err DecimalInvalid
        end))
  | _, _ => match dec_of_val a with
            | Some x => bind (decimal_places digits x) (fun r => Ok (PDec r))
            | None => Err OtherError
            end
  end.

(* ---------------- CONVERSION on any argument ---------------- *)

Definition float_of_val_ok (a : pyval) : res unit :=
  match a with
  | PNone => Err TypeError
  | PInt z => if float_overflow <=? Z.abs z then Err OverflowError else Ok tt
  | PFrac n d => if float_overflow * Z.pos d <=? Z.abs n then Err OverflowError else Ok tt
  | PStr s => if float_str_ok s then Ok tt else Err ValueError
  | PDecNan true => Err ValueError
  | _ => Ok tt
  end.

Definition t_none_s : list N := [78; 111; 110; 101]%N.            (* None *)
Definition t_true_s : list N := [84; 114; 117; 101]%N.            (* True *)
Definition t_false_s : list N := [70; 97; 108; 115; 101]%N.       (* False *)
Definition t_Infinity_s : list N := [73; 110; 102; 105; 110; 105; 116; 121]%N.

(* str(value): the text where it is described (not for a float and not for a Decimal NaN) *)
Definition str_of_val (a : pyval) : res (option (list N)) :=
  match a with
  | PNone => Ok (Some t_none_s)
  | PBool b => Ok (Some (if b then t_true_s else t_false_s))
  | PInt z => bind (str_int z) (fun s => Ok (Some s))
  | PStr s => Ok (Some s)
  | PDec x => Ok (Some (str_dec x))
  | PDecInf n => Ok (Some ((if n then [45%N] else []) ++ t_Infinity_s))
  | PFrac n d =>
      bind (str_int n) (fun a =>
      bind (str_int (Z.pos d)) (fun b =>
        Ok (Some (if (d =? 1)%positive then a else a ++ [47%N] ++ b))))
  | PFloat _ | PFloatNan | PFloatInf _ | PDecNan _ => Ok None
  end.

Definition truth (a : pyval) : bool :=
  match a with
  | PNone => false
  | PBool b => b
  | PInt z => negb (z =? 0)
  | PFloat x | PDec x => negb (coef x =? 0)%N
  | PStr s => negb (is_nil s)
  | PFrac n _ => negb (n =? 0)
  | PFloatNan | PFloatInf _ | PDecNan _ | PDecInf _ => true
  end.

(* CONVERSION entry [entry] applied to a: the value where it is described, and always the type of the result.
   Entry codes as in Model/Conversion.v [entry_type]. *)
Definition entry_result (entry : Z) (a : pyval) : res (Z * option pyval) :=
  match entry with
  | 0 => Ok (type_of a, Some a)
  | 1 => Ok (T_none, Some PNone)
  | 2 => Ok (T_bool, Some (PBool (truth a)))
  | 3 => bind (int_of_val a) (fun z => Ok (T_int, Some (PInt z)))
  | 4 => bind (float_of_val_ok a) (fun _ => Ok (T_float, None))
  | 5 => bind (str_of_val a) (fun s => Ok (T_str, option_map PStr s))
  | 6 => bind (decimal_of_val a) (fun v => Ok (T_decimal, Some v))
  | _ => Err OtherError
  end.

Definition conversion_full (key : Z) (a : pyval) : res (Z * option pyval) :=
  match lookup key conversion_table with
  | Some e => entry_result e a
  | None => Err KeyError
  end.

(* type(CONVERSION[key](a)), or the exception *)
Definition conversion_result (key : Z) (a : pyval) : res Z :=
  bind (conversion_full key a) (fun r => Ok (fst r)).

(* CONVERSION[key](a) itself where the model describes the value *)
Definition conversion_value (key : Z) (a : pyval) : option pyval :=
  match conversion_full key a with
  | Ok (_, v) => v
  | Err _ => None
  end.
