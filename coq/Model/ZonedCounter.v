(* The decoding of an OCCURS DEPENDING ON counter as the code does it
   (schema_instance.py, LocationMaker.walk, case DependsOnArraySchema):

       maxItems = int(self.anchors[max_ref_name].value(self.instance))

   .value() of an atomic location hands the counter's bytes to the unpacker: for the EBCDIC unpacker
   estruct.unpack(<USAGE DISPLAY PICTURE 9(k)>, bytes) - the zoned-decimal branch, [Estruct.unpack] with
   usage 11 (DISPLAY in the numbering of Gen/EstructParams.v) - whose Decimal goes through the item's
   conversion (Decimal for a numeric item: the identity) and then through int().
   C06 / C10 are stated for an ARBITRARY total [dcount : list B -> nat]; this is the concrete one for
   records of bytes, so that those theorems can be instantiated (Props/C06c.v).

   [dcount] in Model/Layout.v is total and yields a nat; the code is neither:
     - where the decoder raises (a low nibble above 9, an empty field) the walk raises; here 0;
     - where the value is negative (zone D or B on the last byte) Python's int is negative and the
       array gets a negative length; here Z.to_nat clamps to 0.
   No theorem is claimed for those two cases.  No proofs in this file. *)
From Coq Require Import ZArith NArith List Bool.
Import ListNotations.
Require Import SR.Base.Res SR.Base.Dec SR.Model.Estruct.

(* int(Decimal): truncation toward zero (same definition as Model/Conversion.int_of_dec, repeated here so
   that the codec theorems do not depend on the conversion helpers' generated parameters) *)
Definition int_of_decimal (x : dec) : Z :=
  let c := Z.of_N (coef x) in
  let m := if (0 <=? dexp x)%Z then (c * 10 ^ dexp x)%Z else (c / 10 ^ (- dexp x))%Z in
  if neg x then (- m)%Z else m.

(* an unsigned DISPLAY item with as many digit positions as the field has bytes, no implied point *)
Definition counter_pic (bs : list N) : pic := mkpic false (length bs) 0.

Definition dcount_zoned (bs : list N) : nat :=
  match unpack 11 (counter_pic bs) bs with
  | Ok (VDec d) => Z.to_nat (int_of_decimal d)
  | _ => 0%nat
  end.
