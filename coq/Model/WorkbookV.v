(* Model of COBOL_EBCDIC_File(path, recfm_class=RECFM_V | RECFM_VB, lrecl=...) read through the workbook facade,
   as the code is now (C03 companion; Model/Workbook.v has the cases RECFM_N and RECFM_F).

   src/stingray/workbook.py
     COBOL_EBCDIC_File.__init__      self.recfm_class = recfm_class or RECFM_N ; self.lrecl = lrecl
     COBOL_EBCDIC_Sheet.set_schema   self.lrecl = wb.lrecl if truthy, else LocationMaker(...).from_schema().end
     COBOL_EBCDIC_Sheet.row_iter     unpacker.instance_iter(name, recfm_class=wb.recfm_class, lrecl=self.lrecl);
                                     a Row per instance; after every row unpacker.used(location.end)
   src/stingray/schema_instance.py
     EBCDIC.instance_iter            self.recfm_parser = recfm_class(self.the_file, lrecl); its record_iter()
     EBCDIC.used                     recfm_parser.used(count): stores _used, which only RECFM_N reads
   src/stingray/estruct.py
     RECFM_V / RECFM_VB              RECFM_Reader.__init__ stores lrecl and never uses it; record_iter yields the
                                     payloads of _data_iter (Model/Recfm.v [V_record_iter] / [VB_record_iter],
                                     tied to the source by C05's run and T1 parameters)

   So the record length (the workbook's or the layout's) is computed and handed over but has no effect, and the
   announcement after every row has no effect; the rows are the payloads, decoded field by field exactly as for
   the other RECFMs ([ebcdic_value], [rows_plain] of Model/Workbook.v).

   Correspondence: V and VB files read through COBOL_EBCDIC_File(path, recfm_class=..., lrecl=...).sheet('')
   .set_schema(...).rows() are a stream of C06's run (harness/c06.py, recfm 1 and 2, flat and nested layouts),
   and the readers themselves are C05's; no further stream is added for this file.  No proofs here. *)
From Coq Require Import ZArith NArith List Bool Arith.
Import ListNotations.
Require Import SR.Base.Res SR.Model.HeaderRow SR.Model.Workbook.
Require SR.Model.Recfm.
Open Scope nat_scope.

Inductive recfm_v := RECFM_V | RECFM_VB.

(* the instances COBOL_EBCDIC_Sheet.row_iter hands to Row; [lrecl] is what the reader's constructor is given *)
Definition ebcdic_records_v (r : recfm_v) (kind : N) (lrecl : nat) (file : list N) : res (list (list N)) :=
  let '(items, fin, _) :=
    match r with
    | RECFM_V => Recfm.V_record_iter kind file
    | RECFM_VB => Recfm.VB_record_iter kind file
    end in
  match fin with Recfm.Done => Ok items | Recfm.Raised e => Err e | _ => Err OtherError end.

(* COBOL_EBCDIC_File(path, recfm_class, lrecl).sheet_iter() -> set_schema -> rows() -> name(k).value() *)
Definition read_ebcdic_v (r : recfm_v) (kind : N) (wb_lrecl : option nat) (file : list N) (l : layout)
  (probes : list key) : obs :=
  [([], bind (ebcdic_records_v r kind (sheet_lrecl wb_lrecl l) file) (fun recs =>
         bind (rows_plain (Some l) recs) (fun rows =>
         Ok (map (fun rec => map (fun k => ebcdic_value l k rec) probes) rows))))].
