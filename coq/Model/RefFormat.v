(* Model of the text layer of stingray.cobol_parser (src/stingray/cobol_parser.py), as the code is now.

   What the code IS is read from the source on every run (T1, harness/t1_text.py -> Gen/RefFormatParams.v);
   this file says what each recognised construct MEANS.  With the source as it is now:

   reference_format(source, replacing)
     non_empty      = filter(lambda line: line.rstrip(), source)                         KeepNonEmpty (Rstrip V0)
     non_directive  = filter(lambda line: line.strip() not in the set EJECT SKIP1 SKIP2 SKIP3, non_empty)
                                                                                          DropWords (Strip V0) ...
     indicator_line = ((line[6], line[7:72]) for line in non_directive if len(line) >= 7)
                                                                    KeepLong 7; Split 6 (Slice 7 (Some 72) V0)
     non_comment    = filter(lambda il: il[0] not in the set star, D, indicator_line)    DropIndicators [42; 68]
     if replacing:  every text goes through replace_all (all pairs, in list order, str.replace)
                                                                                          ReplaceTexts, replace_pairs 0
     indicator, line = next(it)          -- StopIteration inside a generator = RuntimeError
     for indicator, next_line in it:
         if indicator is the minus sign: line += next_line          -- nothing is stripped
                                                                    cont_indicator 45, cont_join (Cat V0 V1)
         else: if line.strip().startswith(COPY): raise ValueError   copy_subject (Strip V0), copy_word
               yield line; line = next_line
     yield line                                                     -- the last line is not checked for COPY
   The statements between the source and the join loop are the list [pipeline] of stages, in data-flow
   order; the shape of the join loop itself is fixed (the extractor accepts no other).
   The caller materialises the generator (list(...)), so an exception anywhere loses the whole output:
   the model returns [res (list line)].

   dde_sentences(lines)
     text = the concatenation of the lines; pattern  ws* (digit digit) ws* (anything, lazy) period ws
     with DOTALL; finditer = leftmost, non-overlapping, a position where the pattern cannot match is skipped.
     The number of digits, lazy / greedy, the terminator character and DOTALL are parameters
     (sent_level_digits, sent_lazy, sent_term_char, sent_dotall).  No alternative of the pattern needs
     backtracking into an earlier item: white space and digits are disjoint classes, and giving white space
     back to the clause text never turns a failure into a match.
     [scan] walks the text: at each position [try_match]; after a match it skips the matched characters
     (the skip counter keeps the recursion structural, there is no fuel).

   DDE.__init__: compact_source = the words of the clause text (str.split()) joined by single blanks.

   A string is a list of code points.  White space is what str.strip / str.isspace / the regex class
   backslash-s accept for str (29 code points); a digit is what backslash-d accepts for str
   (Unicode category Nd of the interpreter's Unicode database, 64 ranges).  The harness checks the
   implementation against this model on every run. *)
From Coq Require Import NArith List Bool Arith.
Import ListNotations.
Require Import SR.Base.Res.
Require Import SR.Gen.RefFormatParams.
Open Scope N_scope.

Definition line := list N.
Definition card := (N * line)%type.            (* (indicator, text of columns 8-72) *)

(* ---------------------------------------------------------------- character classes *)

Definition ws_points : list N :=
  [9; 10; 11; 12; 13; 28; 29; 30; 31; 32; 133; 160; 5760; 8192; 8193; 8194; 8195; 8196; 8197; 8198;
   8199; 8200; 8201; 8202; 8232; 8233; 8239; 8287; 12288].

Definition is_ws (c : N) : bool := existsb (N.eqb c) ws_points.

Definition nd_ranges : list (N * N) :=
  [(48,57); (1632,1641); (1776,1785); (1984,1993); (2406,2415); (2534,2543); (2662,2671); (2790,2799);
   (2918,2927); (3046,3055); (3174,3183); (3302,3311); (3430,3439); (3558,3567); (3664,3673); (3792,3801);
   (3872,3881); (4160,4169); (4240,4249); (6112,6121); (6160,6169); (6470,6479); (6608,6617); (6784,6793);
   (6800,6809); (6992,7001); (7088,7097); (7232,7241); (7248,7257); (42528,42537); (43216,43225);
   (43264,43273); (43472,43481); (43504,43513); (43600,43609); (44016,44025); (65296,65305); (66720,66729);
   (68912,68921); (69734,69743); (69872,69881); (69942,69951); (70096,70105); (70384,70393); (70736,70745);
   (70864,70873); (71248,71257); (71360,71369); (71472,71481); (71904,71913); (72016,72025); (72784,72793);
   (73040,73049); (73120,73129); (73552,73561); (92768,92777); (92864,92873); (93008,93017);
   (120782,120831); (123200,123209); (123632,123641); (124144,124153); (125264,125273); (130032,130041)].

Definition is_digit (c : N) : bool := existsb (fun r => (fst r <=? c) && (c <=? snd r)) nd_ranges.

(* ---------------------------------------------------------------- str helpers *)

Fixpoint leqb (a b : line) : bool :=
  match a, b with
  | [], [] => true
  | x :: a', y :: b' => (x =? y) && leqb a' b'
  | _, _ => false
  end.

Fixpoint lstrip (l : line) : line :=
  match l with
  | [] => []
  | c :: t => if is_ws c then lstrip t else l
  end.

Definition rstrip (l : line) : line := rev (lstrip (rev l)).
Definition strip (l : line) : line := rstrip (lstrip l).

Definition nonempty (l : line) : bool := match l with [] => false | _ => true end.

Fixpoint is_prefix (p s : line) : bool :=
  match p, s with
  | [], _ => true
  | a :: p', b :: s' => (a =? b) && is_prefix p' s'
  | _ :: _, [] => false
  end.

(* str.replace(old, new) for a non-empty old: left to right, non-overlapping.  [skip] counts the
   characters of a matched occurrence still to be dropped. *)
Fixpoint replace_go (old new : line) (skip : nat) (s : line) : line :=
  match s with
  | [] => []
  | c :: t =>
      match skip with
      | S k => replace_go old new k t
      | O => if is_prefix old s then new ++ replace_go old new (pred (length old)) t
             else c :: replace_go old new 0 t
      end
  end.

(* with an empty old Python inserts new before every character and at the end *)
Definition replace (old new s : line) : line :=
  match old with
  | [] => new ++ flat_map (fun c => c :: new) s
  | _ :: _ => replace_go old new 0 s
  end.

(* the pairs replace_all goes through [replace_pairs]: all in list order, the first only, all reversed *)
Definition select_pairs (repl : list (line * line)) : list (line * line) :=
  match replace_pairs with
  | 0 => repl
  | 1 => firstn 1 repl
  | _ => rev repl
  end.

(* replace_all: for old, new in replacing: line = line.replace(old, new) *)
Definition replace_all (repl : list (line * line)) (s : line) : line :=
  fold_left (fun acc p => replace (fst p) (snd p) acc) (select_pairs repl) s.

(* ---------------------------------------------------------------- reference_format *)

(* vocabulary shared with Spec/RefFormat.v (literals; what the code uses is in Gen/RefFormatParams.v) *)
Definition w_EJECT : line := [69; 74; 69; 67; 84].
Definition w_SKIP1 : line := [83; 75; 73; 80; 49].
Definition w_SKIP2 : line := [83; 75; 73; 80; 50].
Definition w_SKIP3 : line := [83; 75; 73; 80; 51].
Definition w_COPY : line := [67; 79; 80; 89].
Definition starts_copy (l : line) : bool := is_prefix w_COPY (strip l).

(* value of a string expression; a = V0, b = V1.  x[lo:hi] with 0 <= lo, hi *)
Fixpoint seval (e : sexp) (a b : line) : line :=
  match e with
  | V0 => a
  | V1 => b
  | Strip x => strip (seval x a b)
  | Lstrip x => lstrip (seval x a b)
  | Rstrip x => rstrip (seval x a b)
  | Slice lo hi x =>
      let s := skipn lo (seval x a b) in
      match hi with Some h => firstn (h - lo) s | None => s end
  | Cat x y => seval x a b ++ seval y a b
  end.

(* what flows between two stages *)
Inductive flow := Lines (ls : list line) | Cards (cs : list card).

Definition replace_cards (repl : list (line * line)) (cs : list card) : list card :=
  map (fun c => (fst c, replace_all repl (snd c))) cs.

(* [repl = []] stands for both replacing=None and replacing=[] (the code tests truthiness): the
   REPLACING stages sit in the true branch of that test, and with no pair they do nothing.
   The extractor only emits stage lists whose kinds fit, and a Split whose column a KeepLong protects;
   a stage applied to the wrong kind of flow leaves it alone. *)
Definition run_stage (repl : list (line * line)) (st : stage) (f : flow) : flow :=
  match st, f with
  | KeepNonEmpty e, Lines ls => Lines (filter (fun l => nonempty (seval e l [])) ls)
  | DropWords e ws, Lines ls => Lines (filter (fun l => negb (existsb (leqb (seval e l [])) ws)) ls)
  | KeepLong n, Lines ls => Lines (filter (fun l => (n <=? length l)%nat) ls)
  | Split i e, Lines ls => Cards (map (fun l => (nth i l 0, seval e l [])) ls)
  | DropIndicators ks, Cards cs => Cards (filter (fun c => negb (existsb (N.eqb (fst c)) ks)) cs)
  | ReplaceLines, Lines ls => Lines (map (replace_all repl) ls)
  | ReplaceTexts, Cards cs => Cards (replace_cards repl cs)
  | ReplacePerPair, Cards cs =>
      match repl with
      | [] => Cards cs
      | _ => Cards (flat_map (fun c => map (fun p => (fst c, replace (fst p) (snd p) (snd c))) repl) cs)
      end
  | _, _ => f
  end.

Definition run_stages (repl : list (line * line)) (sts : list stage) (f : flow) : flow :=
  fold_left (fun acc st => run_stage repl st acc) sts f.

Definition out_cards (f : flow) : list card := match f with Cards cs => cs | Lines _ => [] end.

Definition is_replace (st : stage) : bool :=
  match st with ReplaceLines | ReplaceTexts | ReplacePerPair => true | _ => false end.

(* the (indicator, text) pairs the join loop receives *)
Definition pairs_in (src : list line) (repl : list (line * line)) : list card :=
  out_cards (run_stages repl pipeline (Lines src)).

(* ... and what it would receive without the REPLACING stage (the else branch of `if replacing`) *)
Definition cards (src : list line) : list card :=
  out_cards (run_stages [] (filter (fun st => negb (is_replace st)) pipeline) (Lines src)).

(* the directive words of the DropWords stages *)
Definition directives : list line :=
  flat_map (fun st => match st with DropWords _ ws => ws | _ => [] end) pipeline.

Definition copy_test (l : line) : bool := is_prefix copy_word (seval copy_subject l []).

Fixpoint join (cur : line) (rest : list card) : res (list line) :=
  match rest with
  | [] => Ok [cur]
  | (i, t) :: r =>
      if i =? cont_indicator then join (seval cont_join cur t) r
      else if copy_test cur then Err ValueError
           else match join t r with
                | Ok out => Ok (cur :: out)
                | Err e => Err e
                end
  end.

Definition join_all (cs : list card) : res (list line) :=
  match cs with
  | [] => Err RuntimeError
  | (_, t) :: r => join t r
  end.

Definition reference_format (src : list line) (repl : list (line * line)) : res (list line) :=
  join_all (pairs_in src repl).

(* ---------------------------------------------------------------- dde_sentences *)

(* what the dot of the pattern accepts *)
Definition dot_matches (c : N) : bool := sent_dotall || negb (c =? 10).

Definition at_term (c : N) (t : line) : bool :=
  (c =? sent_term_char) && (match t with w :: _ => is_ws w | [] => false end).

(* lazy anything, then the terminator followed by white space: (clauses, text after the match) *)
Fixpoint find_term (s : line) : option (line * line) :=
  match s with
  | [] => None
  | c :: t =>
      if at_term c t then Some ([], tl t)
      else if dot_matches c then
             match find_term t with
             | Some (a, r) => Some (c :: a, r)
             | None => None
             end
           else None
  end.

(* greedy anything: the LAST terminator that only dot-characters separate from the start *)
Fixpoint find_term_last (s : line) : option (line * line) :=
  match s with
  | [] => None
  | c :: t =>
      let here := if at_term c t then Some ([], tl t) else None in
      if dot_matches c then
        match find_term_last t with
        | Some (a, r) => Some (c :: a, r)
        | None => here
        end
      else here
  end.

Definition find_body (s : line) : option (line * line) :=
  if sent_lazy then find_term s else find_term_last s.

(* n digits: (the digits, the text after them) *)
Fixpoint take_digits (n : nat) (s : line) : option (line * line) :=
  match n with
  | O => Some ([], s)
  | S k =>
      match s with
      | d :: r =>
          if is_digit d then
            match take_digits k r with
            | Some (ds, rest) => Some (d :: ds, rest)
            | None => None
            end
          else None
      | [] => None
      end
  end.

(* one attempt of the pattern at the head of s: (level, clauses, text after the match) *)
Definition try_match (s : line) : option (line * line * line) :=
  match take_digits sent_level_digits (lstrip s) with
  | Some (lv, r) =>
      match find_body (lstrip r) with
      | Some (cl, rest) => Some (lv, cl, rest)
      | None => None
      end
  | None => None
  end.

Fixpoint scan (skip : nat) (s : line) : list (line * line) :=
  match s with
  | [] => []
  | c :: t =>
      match skip with
      | S k => scan k t
      | O =>
          match try_match s with
          | Some (lv, cl, rest) => (lv, cl) :: scan (length t - length rest)%nat t
          | None => scan 0 t
          end
      end
  end.

Definition dde_sentences (lines : list line) : list (line * line) := scan 0 (concat lines).

(* ---------------------------------------------------------------- compact_source *)

(* str.split(): maximal runs of non-white-space; [cur] = current word, reversed *)
Fixpoint split_go (cur : line) (s : line) : list line :=
  match s with
  | [] => match cur with [] => [] | _ => [rev cur] end
  | c :: t =>
      if is_ws c then match cur with [] => split_go [] t | _ => rev cur :: split_go [] t end
      else split_go (c :: cur) t
  end.

Definition split (s : line) : list line := split_go [] s.

Fixpoint join_sp (ws : list line) : line :=
  match ws with
  | [] => []
  | [w] => w
  | w :: r => w ++ 32 :: join_sp r
  end.

Definition compact (s : line) : line := join_sp (split s).
