(* Model of the text layer of stingray.cobol_parser (src/stingray/cobol_parser.py), as the code is now.

   reference_format(source, replacing)   lines 71-117
     non_empty      = filter(lambda line: line.rstrip(), source)
     non_directive  = filter(lambda line: line.strip() not in the set EJECT SKIP1 SKIP2 SKIP3, non_empty)
     indicator_line = ((line[6], line[7:72]) for line in non_directive if len(line) >= 7)
     non_comment    = filter(lambda il: il[0] not in the set star, D, indicator_line)
     if replacing:  every text goes through replace_all (all pairs, in list order, str.replace)
     indicator, line = next(it)          -- StopIteration inside a generator = RuntimeError
     for indicator, next_line in it:
         if indicator is the minus sign: line += next_line          -- nothing is stripped
         else: if line.strip().startswith(COPY): raise ValueError
               yield line; line = next_line
     yield line                                                     -- the last line is not checked for COPY
   The caller materialises the generator (list(...)), so an exception anywhere loses the whole output:
   the model returns [res (list line)].

   dde_sentences(lines)   lines 128-140
     text = the concatenation of the lines; pattern  ws* (digit digit) ws* (anything, lazy) period ws
     with DOTALL; finditer = leftmost, non-overlapping, a position where the pattern cannot match is skipped.
     [scan] walks the text: at each position [try_match]; after a match it skips the matched characters
     (the skip counter keeps the recursion structural, there is no fuel).

   DDE.__init__: compact_source = the words of the clause text (str.split()) joined by single blanks.

   A string is a list of code points.  White space is what str.strip / str.isspace / the regex class
   backslash-s accept for str (29 code points); a digit is what backslash-d accepts for str
   (Unicode category Nd of the interpreter's Unicode database, 64 ranges).  The harness checks the
   implementation against this model on every run. *)
From Coq Require Import NArith List Bool Arith.
Import ListNotations.
Require Import SR.Base.Res.
Open Scope N_scope.

Definition line := list N.
Definition card := (N * line)%type.            (* (indicator, text of columns 8-72) *)

(* ---------------------------------------------------------------- character classes *)

Definition ws_points : list N :=
  [9; 10; 11; 12; 13; 28; 29; 30; 31; 32; 133; 160; 5760; 8192; 8193; 8194; 8195; 8196; 8197; 8198;
   8199; 8200; 8201; 8202; 8232; 8233; 8239; 8287; 12288].

Definition is_ws (c : N) : bool := existsb (N.eqb c) ws_points.

Definition nd_ranges : list (N * N) :=
  [(48,57); (1632,1641); (1776,1785); (1984,1993); (2406,2415); (2534,2543); (2662,2671); (2790,2799);
   (2918,2927); (3046,3055); (3174,3183); (3302,3311); (3430,3439); (3558,3567); (3664,3673); (3792,3801);
   (3872,3881); (4160,4169); (4240,4249); (6112,6121); (6160,6169); (6470,6479); (6608,6617); (6784,6793);
   (6800,6809); (6992,7001); (7088,7097); (7232,7241); (7248,7257); (42528,42537); (43216,43225);
   (43264,43273); (43472,43481); (43504,43513); (43600,43609); (44016,44025); (65296,65305); (66720,66729);
   (68912,68921); (69734,69743); (69872,69881); (69942,69951); (70096,70105); (70384,70393); (70736,70745);
   (70864,70873); (71248,71257); (71360,71369); (71472,71481); (71904,71913); (72016,72025); (72784,72793);
   (73040,73049); (73120,73129); (73552,73561); (92768,92777); (92864,92873); (93008,93017);
   (120782,120831); (123200,123209); (123632,123641); (124144,124153); (125264,125273); (130032,130041)].

Definition is_digit (c : N) : bool := existsb (fun r => (fst r <=? c) && (c <=? snd r)) nd_ranges.

(* ---------------------------------------------------------------- str helpers *)

Fixpoint leqb (a b : line) : bool :=
  match a, b with
  | [], [] => true
  | x :: a', y :: b' => (x =? y) && leqb a' b'
  | _, _ => false
  end.

Fixpoint lstrip (l : line) : line :=
  match l with
  | [] => []
  | c :: t => if is_ws c then lstrip t else l
  end.

Definition rstrip (l : line) : line := rev (lstrip (rev l)).
Definition strip (l : line) : line := rstrip (lstrip l).

Definition nonempty (l : line) : bool := match l with [] => false | _ => true end.

Fixpoint is_prefix (p s : line) : bool :=
  match p, s with
  | [], _ => true
  | a :: p', b :: s' => (a =? b) && is_prefix p' s'
  | _ :: _, [] => false
  end.

(* str.replace(old, new) for a non-empty old: left to right, non-overlapping.  [skip] counts the
   characters of a matched occurrence still to be dropped. *)
Fixpoint replace_go (old new : line) (skip : nat) (s : line) : line :=
  match s with
  | [] => []
  | c :: t =>
      match skip with
      | S k => replace_go old new k t
      | O => if is_prefix old s then new ++ replace_go old new (pred (length old)) t
             else c :: replace_go old new 0 t
      end
  end.

(* with an empty old Python inserts new before every character and at the end *)
Definition replace (old new s : line) : line :=
  match old with
  | [] => new ++ flat_map (fun c => c :: new) s
  | _ :: _ => replace_go old new 0 s
  end.

(* replace_all: for old, new in replacing: line = line.replace(old, new) *)
Definition replace_all (repl : list (line * line)) (s : line) : line :=
  fold_left (fun acc p => replace (fst p) (snd p) acc) repl s.

(* ---------------------------------------------------------------- reference_format *)

Definition w_EJECT : line := [69; 74; 69; 67; 84].
Definition w_SKIP1 : line := [83; 75; 73; 80; 49].
Definition w_SKIP2 : line := [83; 75; 73; 80; 50].
Definition w_SKIP3 : line := [83; 75; 73; 80; 51].
Definition w_COPY : line := [67; 79; 80; 89].
Definition directives : list line := [w_EJECT; w_SKIP1; w_SKIP2; w_SKIP3].

Definition is_directive_word (w : line) : bool := existsb (leqb w) directives.

Definition f_non_empty (l : line) : bool := nonempty (rstrip l).
Definition f_non_directive (l : line) : bool := negb (is_directive_word (strip l)).
Definition f_long (l : line) : bool := (7 <=? length l)%nat.
Definition indicator (l : line) : N := nth 6 l 0.
Definition area (l : line) : line := firstn 65 (skipn 7 l).       (* line[7:72] *)
Definition to_card (l : line) : card := (indicator l, area l).
Definition f_non_comment (c : card) : bool := negb ((fst c =? 42) || (fst c =? 68)).

Definition cards (src : list line) : list card :=
  filter f_non_comment (map to_card (filter f_long (filter f_non_directive (filter f_non_empty src)))).

Definition starts_copy (l : line) : bool := is_prefix w_COPY (strip l).

Fixpoint join (cur : line) (rest : list card) : res (list line) :=
  match rest with
  | [] => Ok [cur]
  | (i, t) :: r =>
      if i =? 45 then join (cur ++ t) r
      else if starts_copy cur then Err ValueError
           else match join t r with
                | Ok out => Ok (cur :: out)
                | Err e => Err e
                end
  end.

Definition join_all (cs : list card) : res (list line) :=
  match cs with
  | [] => Err RuntimeError
  | (_, t) :: r => join t r
  end.

Definition replace_cards (repl : list (line * line)) (cs : list card) : list card :=
  map (fun c => (fst c, replace_all repl (snd c))) cs.

(* [repl = []] stands for both replacing=None and replacing=[] (the code tests truthiness) *)
Definition reference_format (src : list line) (repl : list (line * line)) : res (list line) :=
  join_all (replace_cards repl (cards src)).

(* ---------------------------------------------------------------- dde_sentences *)

(* lazy anything, then a period followed by white space: (clauses, text after the match) *)
Fixpoint find_term (s : line) : option (line * line) :=
  match s with
  | [] => None
  | c :: t =>
      if (c =? 46) && (match t with w :: _ => is_ws w | [] => false end) then Some ([], tl t)
      else match find_term t with
           | Some (a, r) => Some (c :: a, r)
           | None => None
           end
  end.

(* one attempt of the pattern at the head of s: (level, clauses, text after the match) *)
Definition try_match (s : line) : option (line * line * line) :=
  match lstrip s with
  | d1 :: d2 :: r =>
      if is_digit d1 && is_digit d2 then
        match find_term (lstrip r) with
        | Some (cl, rest) => Some ([d1; d2], cl, rest)
        | None => None
        end
      else None
  | _ => None
  end.

Fixpoint scan (skip : nat) (s : line) : list (line * line) :=
  match s with
  | [] => []
  | c :: t =>
      match skip with
      | S k => scan k t
      | O =>
          match try_match s with
          | Some (lv, cl, rest) => (lv, cl) :: scan (length t - length rest)%nat t
          | None => scan 0 t
          end
      end
  end.

Definition dde_sentences (lines : list line) : list (line * line) := scan 0 (concat lines).

(* ---------------------------------------------------------------- compact_source *)

(* str.split(): maximal runs of non-white-space; [cur] = current word, reversed *)
Fixpoint split_go (cur : line) (s : line) : list line :=
  match s with
  | [] => match cur with [] => [] | _ => [rev cur] end
  | c :: t =>
      if is_ws c then match cur with [] => split_go [] t | _ => rev cur :: split_go [] t end
      else split_go (c :: cur) t
  end.

Definition split (s : line) : list line := split_go [] s.

Fixpoint join_sp (ws : list line) : line :=
  match ws with
  | [] => []
  | [w] => w
  | w :: r => w ++ 32 :: join_sp r
  end.

Definition compact (s : line) : line := join_sp (split s).
