(* Model of the heading-row / external-schema path of the workbook facade, as the code is now.

   src/stingray/workbook.py
     Sheet.set_schema / set_schema_loader   the two binding calls (state = loader + schema), see [bind_step]
     Sheet.row_iter              one iterator over the unpacker's rows, consumed in two phases:
                                   json_schema = loader.header(it); if json_schema: schema = from_json(json_schema)
                                   for instance in loader.body(it): yield Row(sheet, instance)
                                 Row.__init__ reads sheet.schema: AttributeError when none was ever bound.
     SchemaLoader                header -> None (consumes nothing), body -> the iterator itself
     HeadingRowSchemaLoader      header: next(it); StopIteration -> None; otherwise the dict comprehension
                                   { str(name): {title, $anchor: name_cleaner(str(name)), type, position: n} }
                                 (a repeated key keeps its first place in the dict and takes the LAST value)
     ExternalSchemaLoader.load   dict comprehension over enumerate(sheet.row_iter()); key = row.name('name').value()
     Row.name / Row.values       nav.name(k);  [nav.name(k).value() for k in schema.properties]
   src/stingray/schema_instance.py
     SchemaMaker.from_json       on these flat schemas: properties keep key, order and attributes
     WBNav.name                  properties[name] (KeyError); position attribute, else index of the key;
                                 instance[position]; on IndexError a navigator over the list [None]
     WBNav.value                 the cell itself (no conversion)

   Text is a list of code points.  A cell is a str ([Txt]) or any other Python object, of which
   only an identity tag and its str() matter here ([Obj]; None is [Obj 0 'None']).
   The value obtained by name is [option cell]: [None] stands for the list [None], the
   marker WBNav.name substitutes when the row has no cell at that position.
   name_cleaner is the C17 model ([NameCleaner.clean]); its result (the anchor) is not used
   by WBNav.name, which looks properties up by key, but a raise would escape from header.

   The RULES of that code are not written here: they are the definitions of Gen/HeaderRowParams.v, read from
   the source on every run by harness/t1_workbook.py (which keyword each property gets and from which
   expression, the start of enumerate, what body() does, which iterator body() is handed, how the loaded
   schema is bound, what set_schema installs, how WBNav.name finds the column and what it substitutes for a
   missing cell, how Row.values walks the schema, META_SCHEMA).  The functions below interpret them, so an
   edit of a rule changes this model and the lemmas of Proofs/HeaderRowP.v that state the rules stop
   compiling.  The interpretation is exact for the values the unchanged source has; for other values it
   follows Python as far as the comment at each function says. *)
From Coq Require Import NArith List Bool Arith.
Import ListNotations.
Require Import SR.Base.Res.
Require SR.Model.NameCleaner.
Require Export SR.Gen.HeaderRowParams.

Definition key := list N.

Fixpoint key_eqb (a b : key) : bool :=
  match a, b with
  | [], [] => true
  | x :: a', y :: b' => N.eqb x y && key_eqb a' b'
  | _, _ => false
  end.

Inductive cell := Txt (s : key) | Obj (id : N) (repr : key).

(* str(cell) *)
Definition str_of (c : cell) : key := match c with Txt s => s | Obj _ r => r end.

Definition row := list cell.
Definition sheet := list row.

(* one property of a loaded object schema: its key and its position attribute, if any *)
Record entry := mk_entry { e_key : key; e_pos : option nat }.
Definition schema := list entry.            (* dict order *)
Definition keys (s : schema) : list key := map e_key s.

(* ---- Python dict semantics for d[k] = v and for a dict comprehension ---- *)
Definition has_key (s : schema) (k : key) : bool := existsb (fun e => key_eqb (e_key e) k) s.

Definition dict_set (s : schema) (e : entry) : schema :=
  if has_key s (e_key e)
  then map (fun x => if key_eqb (e_key x) (e_key e) then e else x) s
  else s ++ [e].

Definition dict_of (es : list entry) : schema := fold_left dict_set es [].

(* ---- name_cleaner(text): value or exception ---- *)
Definition anchor_of (s : key) : res key :=
  match NameCleaner.clean s with
  | Some (Ok a) => Ok a
  | Some (Err e) => Err e
  | None => Err OtherError
  end.

(* ---- the expressions of the two comprehensions (Gen/HeaderRowParams.v [expr]) ----
   A value is a cell or the absent marker ([V_cell]: what row.name(k).value() or the loop item gives), a str
   built by str() / name_cleaner() / a literal ([V_text]), or an int ([V_int]). *)
Inductive hval := V_cell (c : option cell) | V_text (s : key) | V_int (n : nat).

(* the loop item (a heading; None in load(), whose item is the Row), the enumerate counter, row.name(k).value() *)
Record env := mk_env { en_item : option cell; en_count : nat; en_field : key -> res (option cell) }.

Definition k_marker_repr : key := [91; 78; 111; 110; 101; 93]%N.      (* str([None]) *)

(* str(v); the translator refuses str() of a number, so [V_int] does not occur here *)
Definition str_val (v : hval) : key :=
  match v with
  | V_cell (Some c) => str_of c
  | V_cell None => k_marker_repr
  | V_text s => s
  | V_int _ => []
  end.

Fixpoint eval (en : env) (e : expr) : res hval :=
  match e with
  | E_item => match en_item en with Some c => Ok (V_cell (Some c)) | None => Err OtherError end
  | E_count => Ok (V_int (en_count en))
  | E_str e' => bind (eval en e') (fun v => Ok (V_text (str_val v)))
  | E_clean e' =>
      (* name_cleaner of anything but a str raises TypeError (re.match): None, a number, the [None] marker *)
      bind (eval en e') (fun v =>
        match v with
        | V_cell (Some (Txt t)) | V_text t => bind (anchor_of t) (fun a => Ok (V_text a))
        | _ => Err TypeError
        end)
  | E_text s => Ok (V_text s)
  | E_int n => Ok (V_int n)
  | E_field k => bind (en_field en k) (fun c => Ok (V_cell c))
  end.

(* the keywords of one property, evaluated in the order they are written *)
Fixpoint eval_props (en : env) (ps : list (key * expr)) : res (list (key * hval)) :=
  match ps with
  | [] => Ok []
  | (k, e) :: t => bind (eval en e) (fun v => bind (eval_props en t) (fun vs => Ok ((k, v) :: vs)))
  end.

(* the dict key: a str; the [None] marker is a list, unhashable (TypeError); another object is kept under its
   str() (an approximation: from_json would carry the object itself); a number is refused by the translator *)
Definition key_of_val (v : hval) : res key :=
  match v with
  | V_text s => Ok s
  | V_cell (Some (Txt s)) => Ok s
  | V_cell (Some (Obj _ r)) => Ok r
  | V_cell None => Err TypeError
  | V_int _ => Err OtherError
  end.

Fixpoint lookup_val (vs : list (key * hval)) (k : key) : option hval :=
  match vs with
  | [] => None
  | (k', v) :: t => if key_eqb k' k then Some v else lookup_val t k
  end.

(* the attribute of a property that WBNav.name reads ([nav_pos_attr]), when it is an int *)
Definition pos_attr (vs : list (key * hval)) : option nat :=
  match lookup_val vs nav_pos_attr with Some (V_int n) => Some n | _ => None end.

(* one item KEY: {keywords} of a comprehension: Python evaluates the key expression, then the value, then stores *)
Definition comp_item (en : env) (k : expr) (ps : list (key * expr)) : res entry :=
  bind (eval en k) (fun kv =>
  bind (eval_props en ps) (fun vs =>
  bind (key_of_val kv) (fun key => Ok (mk_entry key (pos_attr vs))))).

(* ---- HeadingRowSchemaLoader.header: the items of the comprehension, enumerate from n ---- *)
Definition header_item (n : nat) (c : cell) : res entry :=
  comp_item (mk_env (Some c) n (fun _ => Err OtherError)) hdr_key hdr_props.

Fixpoint header_entries (n : nat) (first : row) : res (list entry) :=
  match first with
  | [] => Ok []
  | c :: t =>
      bind (header_item n c) (fun e =>
      bind (header_entries (S n) t) (fun es => Ok (e :: es)))
  end.

Definition header_schema (first : row) : res schema :=
  bind (header_entries hdr_enum_start first) (fun es => Ok (dict_of es)).

Inductive loader := NoLoader | HeadingRow.

Definition exn_of_code (c : N) : exn :=
  if (c =? 1)%N then ValueError else if (c =? 2)%N then TypeError else if (c =? 3)%N then IndexError
  else if (c =? 4)%N then KeyError else if (c =? 5)%N then RuntimeError else if (c =? 6)%N then NotImplementedError
  else if (c =? 10)%N then AttributeError else if (c =? 11)%N then StopIter else if (c =? 12)%N then AssertionError
  else OtherError.

(* loader.header(it): the JSON schema built (None = no schema) and what is left in the iterator *)
Definition header (l : loader) (src : sheet) : res (option schema * sheet) :=
  match l with
  | NoLoader => Ok (None, src)                             (* SchemaLoader.header: return None *)
  | HeadingRow =>
      match src with
      | [] => match hdr_on_empty with                      (* next(source) raised StopIteration *)
              | None => Ok (None, [])
              | Some c => Err (exn_of_code c)
              end
      | first :: rest => bind (header_schema first) (fun s => Ok (Some s, rest))
      end
  end.

(* ---- loader.body(it) ----
   truthiness of a cell: a str is falsy when empty; of another object only the tag and the str() are known:
   None (tag 0), False, 0, 0.0 are falsy *)
Definition cell_truthy (c : cell) : bool :=
  match c with
  | Txt s => match s with [] => false | _ => true end
  | Obj id r =>
      negb (N.eqb id 0)
      && negb (key_eqb r [70; 97; 108; 115; 101]%N) && negb (key_eqb r [48]%N)
      && negb (key_eqb r [48; 46; 48]%N) && negb (key_eqb r [45; 48; 46; 48]%N)
  end.

(* c is not None and c != '' *)
Definition cell_nonblank (c : cell) : bool :=
  match c with
  | Txt s => match s with [] => false | _ => true end
  | Obj id _ => negb (N.eqb id 0)
  end.

Definition keep_row (p : body_pred) (r : row) : bool :=
  match p with
  | P_any_truthy => existsb cell_truthy r
  | P_any_nonblank => existsb cell_nonblank r
  | P_nonempty => match r with [] => false | _ => true end
  end.

(* [keep p x]: does the condition p of a filtering body() hold for the instance x *)
Definition body_rows {I} (keep : body_pred -> I -> bool) (k : body_kind) (src : list I) : list I :=
  match k with
  | B_source => src
  | B_filter p => filter (keep p) src
  end.

Definition body_kind_of (l : loader) : body_kind :=
  match l with NoLoader => body_base | HeadingRow => body_heading end.

Definition body (l : loader) (src : sheet) : sheet := body_rows keep_row (body_kind_of l) src.

(* Sheet.row_iter, for instances of any type: [hdr] = loader.header, [bk] = what loader.body does,
   [keep p x] = does the condition p hold for the instance x.
     json_schema = self.loader.header(it)
     if json_schema: self.schema = from_json(json_schema)     (ri_guard G_truthy; a schema dict is never empty, so
                                                                truthy.  G_always: unguarded, from_json(None) raises.
                                                                G_stop: without a schema from header the generator returns)
     for instance in self.loader.body(it or a fresh iterator): (ri_same_iterator)
         yield Row(self, instance)                             (ri_rows: B_source = for every instance,
                                                                B_filter p = only for the instances with p)
   Row.__init__ reads sheet.schema: AttributeError when none was ever bound.  Result: the schema bound to the
   sheet afterwards and the instances of the rows delivered, one Row each. *)
Definition sheet_row_iter {S I} (keep : body_pred -> I -> bool) (hdr : list I -> res (option S * list I))
  (bk : body_kind) (preset : option S) (src : list I) : res (option S * list I) :=
  bind (hdr src) (fun hr =>
  bind (match fst hr, ri_guard with
        | Some s, _ => Ok (Some s, true)
        | None, G_truthy => Ok (preset, true)
        | None, G_always => Err TypeError
        | None, G_stop => Ok (preset, false)
        end) (fun sg =>
    let rows := if snd sg
                then body_rows keep ri_rows (body_rows keep bk (if ri_same_iterator then snd hr else src))
                else [] in
    match rows, fst sg with
    | _ :: _, None => Err AttributeError                   (* Row.__init__: sheet.schema *)
    | _, sch => Ok (sch, rows)
    end)).

(* list(sheet.rows()): the schema bound to the sheet afterwards and the instances of the rows
   delivered.  [preset] = the schema given to set_schema beforehand, if any. *)
Definition row_iter (l : loader) (preset : option schema) (src : sheet) : res (option schema * sheet) :=
  sheet_row_iter keep_row (header l) (body_kind_of l) preset src.

(* ---- binding calls on ONE Sheet object, before rows() ----
   Sheet.__init__        loader = SchemaLoader(), no schema attribute
   Sheet.set_schema(s)   schema = s AND, when [set_schema_resets_loader], loader = SchemaLoader()
                         (the reset that assures all rows are processed)
   Sheet.set_schema_loader(l)   loader = l, schema untouched
   The state is (loader, bound schema); rows() then runs row_iter from the final state. *)
Inductive binding := SetSchema (s : schema) | SetLoader (l : loader).
Definition sheet_state := (loader * option schema)%type.
Definition init_state : sheet_state := (NoLoader, None).

Definition bind_step (st : sheet_state) (b : binding) : sheet_state :=
  match b with
  | SetSchema s => ((if set_schema_resets_loader then NoLoader else fst st), Some s)
  | SetLoader l => (l, snd st)
  end.

Definition bind_all (bs : list binding) : sheet_state := fold_left bind_step bs init_state.

(* list(sheet.rows()) after the binding calls bs on a fresh sheet *)
Definition read_after (bs : list binding) (src : sheet) : res (option schema * sheet) :=
  row_iter (fst (bind_all bs)) (snd (bind_all bs)) src.

(* ---- WBNav.name(k).value() ---- *)
Definition find_entry (s : schema) (k : key) : option entry :=
  find (fun e => key_eqb (e_key e) k) s.

(* list(properties.keys()).index(k), for a key that is present *)
Fixpoint key_index (ks : list key) (k : key) : nat :=
  match ks with
  | [] => 0
  | x :: t => if key_eqb x k then 0 else S (key_index t k)
  end.

(* the column WBNav.name reads for property e of schema s, asked for under the key k: the position attribute
   when the test [nav_pos_test] accepts it (PT_in: present; PT_truthy: present and not 0), else the index of k *)
Definition position_of (s : schema) (k : key) (e : entry) : nat :=
  match nav_pos_test, e_pos e with
  | PT_in, Some p => p
  | PT_truthy, Some (S p) => S p
  | _, _ => key_index (keys s) k
  end.

Definition none_obj : cell := Obj 0 [78; 111; 110; 101]%N.

(* what WBNav.name gives when instance[position] raises IndexError *)
Definition absent_result : res (option cell) :=
  match nav_absent with
  | A_list_none => Ok None                                 (* a navigator over the list [None] *)
  | A_none => Ok (Some none_obj)                           (* a navigator over None *)
  | A_raise => Err IndexError
  end.

Definition nav_name (s : schema) (k : key) (r : row) : res (option cell) :=
  match find_entry s k with
  | None => Err KeyError
  | Some e =>
      match nth_error r (position_of s k e) with
      | Some c => Ok (Some c)
      | None => absent_result
      end
  end.

Fixpoint collect {T} (l : list (res T)) : res (list T) :=
  match l with
  | [] => Ok []
  | x :: t => bind x (fun v => bind (collect t) (fun vs => Ok (v :: vs)))
  end.

(* Row.values() *)
Definition values (s : schema) (r : row) : res (list (option cell)) :=
  if values_per_property
  then collect (map (fun k => nav_name s k r) (keys s))
  else Ok (map Some r).

(* ---- ExternalSchemaLoader ---- *)
Definition k_name : key := [110; 97; 109; 101]%N.
Definition k_description : key := [100; 101; 115; 99; 114; 105; 112; 116; 105; 111; 110]%N.
Definition k_dataType : key := [100; 97; 116; 97; 84; 121; 112; 101]%N.

(* the keyword under which a schema document declares a column *)
Definition k_position : key := [112; 111; 115; 105; 116; 105; 111; 110]%N.

(* the position attribute WBNav.name will find on a property written with the integer keywords [ints] *)
Fixpoint int_attr (ints : list (key * nat)) : option nat :=
  match ints with
  | [] => None
  | (k, v) :: t => if key_eqb k nav_pos_attr then Some v else int_attr t
  end.

(* ExternalSchemaLoader.META_SCHEMA *)
Definition meta_schema : schema :=
  dict_of (map (fun p => mk_entry (fst p) (int_attr (snd p))) meta_properties).

(* one item of the comprehension in load() ([ext_key], [ext_props]).  With the unchanged source: the key
   expression row.name('name').value() comes first (KeyError when the sheet's schema has no 'name');
   name_cleaner of anything but a str raises TypeError (the [None] marker, None, a number), and the [None]
   marker is unhashable as well; then the description and dataType look-ups, whose values are stored as they are. *)
Definition ext_entry (s : schema) (n : nat) (r : row) : res entry :=
  comp_item (mk_env None n (fun k => nav_name s k r)) ext_key ext_props.

Fixpoint ext_entries (s : schema) (n : nat) (rows : sheet) : res (list entry) :=
  match rows with
  | [] => Ok []
  | r :: t =>
      bind (ext_entry s n r) (fun e =>
      bind (ext_entries s (S n) t) (fun es => Ok (e :: es)))
  end.

(* ExternalSchemaLoader(sheet).load() for a sheet with loader [l] and bound schema [preset] *)
Definition ext_load (l : loader) (preset : option schema) (meta : sheet) : res schema :=
  bind (row_iter l preset meta) (fun sr =>
    match fst sr with
    | None => Ok (dict_of [])                              (* no schema means no rows *)
    | Some s => bind (ext_entries s ext_enum_start (snd sr)) (fun es => Ok (dict_of es))
    end).

(* the documented protocol (tests/test_workbook.py, docs): set_schema(from_json(META_SCHEMA)),
   which also installs the do-nothing loader, so no row of the metadata sheet is skipped *)
Definition ext_load_meta (meta : sheet) : res schema := ext_load NoLoader (Some meta_schema) meta.

(* a schema written by hand as {type: object, properties: {name: {type: string}, ...}} *)
Definition hand_schema (names : list key) : schema :=
  dict_of (map (fun k => mk_entry k None) names).

(* ... and one whose properties each carry an explicit position keyword,
   {name: {type: string, position: p}, ...}, in any order and for any subset of the columns *)
Definition hand_schema_at (decl : list (key * nat)) : schema :=
  dict_of (map (fun kp => mk_entry (fst kp) (int_attr [(k_position, snd kp)])) decl).
