(* Model of the heading-row / external-schema path of the workbook facade, as the code is now.

   src/stingray/workbook.py
     Sheet.set_schema / set_schema_loader   the two binding calls (state = loader + schema), see [bind_step]
     Sheet.row_iter              one iterator over the unpacker's rows, consumed in two phases:
                                   json_schema = loader.header(it); if json_schema: schema = from_json(json_schema)
                                   for instance in loader.body(it): yield Row(sheet, instance)
                                 Row.__init__ reads sheet.schema: AttributeError when none was ever bound.
     SchemaLoader                header -> None (consumes nothing), body -> the iterator itself
     HeadingRowSchemaLoader      header: next(it); StopIteration -> None; otherwise the dict comprehension
                                   { str(name): {title, $anchor: name_cleaner(str(name)), type, position: n} }
                                 (a repeated key keeps its first place in the dict and takes the LAST value)
     ExternalSchemaLoader.load   dict comprehension over enumerate(sheet.row_iter()); key = row.name('name').value()
     Row.name / Row.values       nav.name(k);  [nav.name(k).value() for k in schema.properties]
   src/stingray/schema_instance.py
     SchemaMaker.from_json       on these flat schemas: properties keep key, order and attributes
     WBNav.name                  properties[name] (KeyError); position attribute, else index of the key;
                                 instance[position]; on IndexError a navigator over the list [None]
     WBNav.value                 the cell itself (no conversion)

   Text is a list of code points.  A cell is a str ([Txt]) or any other Python object, of which
   only an identity tag and its str() matter here ([Obj]; None is [Obj 0 'None']).
   The value obtained by name is [option cell]: [None] stands for the list [None], the
   marker WBNav.name substitutes when the row has no cell at that position.
   name_cleaner is the C17 model ([NameCleaner.clean]); its result (the anchor) is not used
   by WBNav.name, which looks properties up by key, but a raise would escape from header. *)
From Coq Require Import NArith List Bool Arith.
Import ListNotations.
Require Import SR.Base.Res.
Require SR.Model.NameCleaner.

Definition key := list N.

Fixpoint key_eqb (a b : key) : bool :=
  match a, b with
  | [], [] => true
  | x :: a', y :: b' => N.eqb x y && key_eqb a' b'
  | _, _ => false
  end.

Inductive cell := Txt (s : key) | Obj (id : N) (repr : key).

(* str(cell) *)
Definition str_of (c : cell) : key := match c with Txt s => s | Obj _ r => r end.

Definition row := list cell.
Definition sheet := list row.

(* one property of a loaded object schema: its key and its position attribute, if any *)
Record entry := mk_entry { e_key : key; e_pos : option nat }.
Definition schema := list entry.            (* dict order *)
Definition keys (s : schema) : list key := map e_key s.

(* ---- Python dict semantics for d[k] = v and for a dict comprehension ---- *)
Definition has_key (s : schema) (k : key) : bool := existsb (fun e => key_eqb (e_key e) k) s.

Definition dict_set (s : schema) (e : entry) : schema :=
  if has_key s (e_key e)
  then map (fun x => if key_eqb (e_key x) (e_key e) then e else x) s
  else s ++ [e].

Definition dict_of (es : list entry) : schema := fold_left dict_set es [].

(* ---- name_cleaner(text): value or exception ---- *)
Definition anchor_of (s : key) : res key :=
  match NameCleaner.clean s with
  | Some (Ok a) => Ok a
  | Some (Err e) => Err e
  | None => Err OtherError
  end.

(* ---- HeadingRowSchemaLoader.header: the items of the comprehension, enumerate from n ---- *)
Fixpoint header_entries (n : nat) (first : row) : res (list entry) :=
  match first with
  | [] => Ok []
  | c :: t =>
      bind (anchor_of (str_of c)) (fun _ =>
      bind (header_entries (S n) t) (fun es =>
      Ok (mk_entry (str_of c) (Some n) :: es)))
  end.

Definition header_schema (first : row) : res schema :=
  bind (header_entries 0 first) (fun es => Ok (dict_of es)).

Inductive loader := NoLoader | HeadingRow.

(* loader.header(it): the JSON schema built (None = no schema) and what is left in the iterator *)
Definition header (l : loader) (src : sheet) : res (option schema * sheet) :=
  match l with
  | NoLoader => Ok (None, src)
  | HeadingRow =>
      match src with
      | [] => Ok (None, [])                               (* StopIteration caught *)
      | first :: rest => bind (header_schema first) (fun s => Ok (Some s, rest))
      end
  end.

(* loader.body(it): neither loader filters *)
Definition body (l : loader) (src : sheet) : sheet := src.

(* list(sheet.rows()): the schema bound to the sheet afterwards and the instances of the rows
   delivered.  [preset] = the schema given to set_schema beforehand, if any. *)
Definition row_iter (l : loader) (preset : option schema) (src : sheet) : res (option schema * sheet) :=
  bind (header l src) (fun hr =>
    let sch := match fst hr with Some s => Some s | None => preset end in
    let rows := body l (snd hr) in
    match rows, sch with
    | _ :: _, None => Err AttributeError                   (* Row.__init__: sheet.schema *)
    | _, _ => Ok (sch, rows)
    end).

(* ---- binding calls on ONE Sheet object, before rows() ----
   Sheet.__init__        loader = SchemaLoader(), no schema attribute
   Sheet.set_schema(s)   schema = s AND loader = SchemaLoader()  (the reset that assures all rows are processed)
   Sheet.set_schema_loader(l)   loader = l, schema untouched
   The state is (loader, bound schema); rows() then runs row_iter from the final state. *)
Inductive binding := SetSchema (s : schema) | SetLoader (l : loader).
Definition sheet_state := (loader * option schema)%type.
Definition init_state : sheet_state := (NoLoader, None).

Definition bind_step (st : sheet_state) (b : binding) : sheet_state :=
  match b with
  | SetSchema s => (NoLoader, Some s)
  | SetLoader l => (l, snd st)
  end.

Definition bind_all (bs : list binding) : sheet_state := fold_left bind_step bs init_state.

(* list(sheet.rows()) after the binding calls bs on a fresh sheet *)
Definition read_after (bs : list binding) (src : sheet) : res (option schema * sheet) :=
  row_iter (fst (bind_all bs)) (snd (bind_all bs)) src.

(* ---- WBNav.name(k).value() ---- *)
Definition find_entry (s : schema) (k : key) : option entry :=
  find (fun e => key_eqb (e_key e) k) s.

(* list(properties.keys()).index(k), for a key that is present *)
Fixpoint key_index (ks : list key) (k : key) : nat :=
  match ks with
  | [] => 0
  | x :: t => if key_eqb x k then 0 else S (key_index t k)
  end.

Definition nav_name (s : schema) (k : key) (r : row) : res (option cell) :=
  match find_entry s k with
  | None => Err KeyError
  | Some e =>
      let position := match e_pos e with Some p => p | None => key_index (keys s) k end in
      match nth_error r position with
      | Some c => Ok (Some c)
      | None => Ok None                                    (* except IndexError: [None] *)
      end
  end.

Fixpoint collect {T} (l : list (res T)) : res (list T) :=
  match l with
  | [] => Ok []
  | x :: t => bind x (fun v => bind (collect t) (fun vs => Ok (v :: vs)))
  end.

(* Row.values() *)
Definition values (s : schema) (r : row) : res (list (option cell)) :=
  collect (map (fun k => nav_name s k r) (keys s)).

(* ---- ExternalSchemaLoader ---- *)
Definition k_name : key := [110; 97; 109; 101]%N.
Definition k_description : key := [100; 101; 115; 99; 114; 105; 112; 116; 105; 111; 110]%N.
Definition k_dataType : key := [100; 97; 116; 97; 84; 121; 112; 101]%N.

(* ExternalSchemaLoader.META_SCHEMA *)
Definition meta_schema : schema :=
  [mk_entry k_name (Some 0); mk_entry k_description (Some 1); mk_entry k_dataType (Some 2)].

(* one item of the comprehension in load().  The key expression comes first (KeyError when the
   sheet's schema has no 'name'); name_cleaner of anything but a str raises TypeError (the
   [None] marker, None, a number), and the [None] marker is unhashable as well; then the
   description and dataType look-ups, whose values are stored as they are. *)
Definition ext_entry (s : schema) (n : nat) (r : row) : res entry :=
  bind (nav_name s k_name r) (fun v =>
    match v with
    | Some (Txt t) =>
        bind (anchor_of t) (fun _ =>
        bind (nav_name s k_description r) (fun _ =>
        bind (nav_name s k_dataType r) (fun _ =>
        Ok (mk_entry t (Some n)))))
    | _ => Err TypeError
    end).

Fixpoint ext_entries (s : schema) (n : nat) (rows : sheet) : res (list entry) :=
  match rows with
  | [] => Ok []
  | r :: t =>
      bind (ext_entry s n r) (fun e =>
      bind (ext_entries s (S n) t) (fun es => Ok (e :: es)))
  end.

(* ExternalSchemaLoader(sheet).load() for a sheet with loader [l] and bound schema [preset] *)
Definition ext_load (l : loader) (preset : option schema) (meta : sheet) : res schema :=
  bind (row_iter l preset meta) (fun sr =>
    match fst sr with
    | None => Ok (dict_of [])                              (* no schema means no rows *)
    | Some s => bind (ext_entries s 0 (snd sr)) (fun es => Ok (dict_of es))
    end).

(* the documented protocol (tests/test_workbook.py, docs): set_schema(from_json(META_SCHEMA)),
   which also installs the do-nothing loader, so no row of the metadata sheet is skipped *)
Definition ext_load_meta (meta : sheet) : res schema := ext_load NoLoader (Some meta_schema) meta.

(* a schema written by hand as {type: object, properties: {name: {type: string}, ...}} *)
Definition hand_schema (names : list key) : schema :=
  dict_of (map (fun k => mk_entry k None) names).

(* ... and one whose properties each carry an explicit position keyword,
   {name: {type: string, position: p}, ...}, in any order and for any subset of the columns *)
Definition hand_schema_at (decl : list (key * nat)) : schema :=
  dict_of (map (fun kp => mk_entry (fst kp) (Some (snd kp))) decl).
