(* C10: the VALUE level of non-delimited navigation, as the code is now.

     schema_instance.py  AtomicLocation / ArrayLocation / ObjectLocation / OneOfLocation / RefToLocation
                         .value(instance, offset) and .raw; LocationMaker.walk; NDNav.name / index / value / raw
     workbook.py         Row.values

   Model/Layout.v (C01) keeps, of a Location, only start and size.  value() also needs the SCHEMA of an
   AtomicLocation (unpacker.value(schema, bytes) decodes by the item's own USAGE / PICTURE), so the location
   tree is repeated here with that one annotation: [WAtom a st sz] carries the atom's anchor, which is how
   the per-atom decoder [dec] is indexed.  [erase] forgets it again; Proofs/LayoutValueP.v shows that
   [walkv] erases to Layout.walk and vnav_name / vnav_index to nav_name / nav_index, so everything C01 says
   about starts and ends holds of these locations as well.

   value(), branch by branch:
     AtomicLocation   unpacker.value(schema, instance[start+offset : end+offset])            may raise
     ArrayLocation    [items.value(instance, offset + i*item_size) for i in range(item_count)]
                      items is the location of the FIRST occurrence, shifted; not a re-walk
     ObjectLocation   {name: properties[name].value(instance, offset) for name in schema.properties}
                      every property: also the REDEFINES-x oneOf entries and the $ref placeholders
     OneOfLocation    first, *others = alternatives.values(); first.value(instance, offset)
     RefToLocation    anchors[name].value(instance, offset)     KeyError; anchors is the maker's shared dict
   Evaluation is left to right and the first exception escapes.

   A $ref resolves through the anchors to a location that is not a sub-term, so the recursion is
   [value_body] (structural, with the treatment of a resolved $ref as a parameter) iterated [fuel] times.
   [None] = out of fuel: on a cyclic $ref chain Python raises RecursionError.  vnav_value supplies
   fuel = number of registered anchors (an acyclic chain of references cannot be longer).
   Results do not depend on the fuel once they are [Some] (Proofs: wvalue_mono).

   Not modelled: OneOfLocation keeps its alternatives in a dict keyed by $anchor / title / 'UNNAMED';
   two alternatives with the same key collapse into one.  Alternatives emitted by cobol_parser carry
   distinct names; the js tree of Model/Layout.v has no titles.  The ODO counter is read with the total
   [dcount] exactly as in Model/Layout.v (a counter holding undecodable bytes makes from_instance raise). *)
From Coq Require Import List Arith NArith ZArith Bool.
Import ListNotations.
Require Import SR.Base.Res SR.Spec.Layout SR.Model.Layout.
Open Scope nat_scope.

(* ------------------------------------------------------------------ Python values *)
Section PV.
  Variable A : Type.                    (* a decoded elementary value *)
  Inductive pv :=
  | PAtom (v : A)
  | PList (l : list pv)
  | PDict (d : list (key * pv)).

  Fixpoint dlookup (k : key) (d : list (key * pv)) : option pv :=
    match d with
    | [] => None
    | (k', x) :: t => if key_eqb k k' then Some x else dlookup k t
    end.
End PV.
Arguments PAtom {A}.
Arguments PList {A}.
Arguments PDict {A}.
Arguments dlookup {A}.

(* ------------------------------------------------------------------ locations, with the atom's schema *)
Inductive wloc :=
| WAtom (a : option key) (st sz : nat)
| WArr  (st sz isz cnt : nat) (it : wloc) (sch : js)
| WObj  (st sz : nat) (ps : wprops)
| WOne  (st sz : nat) (alts : walts)
| WRef  (st : nat) (target : key)
with wprops := WPNil | WPCons (k : key) (l : wloc) (r : wprops)
with walts := WANil | WACons (l : wloc) (r : walts).

Scheme wloc_ind3 := Induction for wloc Sort Prop
with wprops_ind3 := Induction for wprops Sort Prop
with walts_ind3 := Induction for walts Sort Prop.
Combined Scheme wloc_wprops_walts_ind from wloc_ind3, wprops_ind3, walts_ind3.

Fixpoint erase (l : wloc) : loc :=
  match l with
  | WAtom _ st sz => LAtom st sz
  | WArr st sz isz cnt it sch => LArr st sz isz cnt (erase it) sch
  | WObj st sz ps => LObj st sz (erase_props ps)
  | WOne st sz alts => LOne st sz (erase_alts alts)
  | WRef st t => LRef st t
  end
with erase_props (ps : wprops) : lprops :=
  match ps with WPNil => LPNil | WPCons k l r => LPCons k (erase l) (erase_props r) end
with erase_alts (ls : walts) : lalts :=
  match ls with WANil => LANil | WACons l r => LACons (erase l) (erase_alts r) end.

Definition wstart (l : wloc) : nat :=
  match l with WAtom _ s _ | WArr s _ _ _ _ _ | WObj s _ _ | WOne s _ _ | WRef s _ => s end.
Definition wsize (l : wloc) : nat :=
  match l with WAtom _ _ z | WArr _ z _ _ _ _ | WObj _ z _ | WOne _ z _ => z | WRef _ _ => 0 end.
Definition wend (l : wloc) : nat := wstart l + wsize l.

Definition wanchors := list (key * wloc).
Definition wreg (a : option key) (l : wloc) (an : wanchors) : wanchors :=
  match a with Some k => (k, l) :: an | None => an end.
Fixpoint wlookup (k : key) (an : wanchors) : option wloc :=
  match an with
  | [] => None
  | (k', l) :: r => if key_eqb k k' then Some l else wlookup k r
  end.
Definition erase_an (an : wanchors) : anchors := map (fun p => (fst p, erase (snd p))) an.

Fixpoint wmax_size (ls : walts) : nat :=
  match ls with WANil => 0 | WACons l r => Nat.max (wsize l) (wmax_size r) end.

Fixpoint wfind (k : key) (ps : wprops) : option wloc :=
  match ps with
  | WPNil => None
  | WPCons k' l rest => if key_eqb k k' then Some l else wfind k rest
  end.

Fixpoint wkeys (ps : wprops) : list key :=
  match ps with WPNil => [] | WPCons k _ r => k :: wkeys r end.

(* a navigation step: a property name (a COBOL name or a REDEFINES-x entry) or an index *)
Inductive wstep := SKey (k : key) | SIdx (i : nat).

(* [f i; f (i+1); ...] (n calls), left to right, the first failure escapes.
   None = out of fuel, Some (Err e) = raised *)
Definition vres (T : Type) := option (res T).

Fixpoint seq_values {T} (f : nat -> vres T) (n i : nat) : vres (list T) :=
  match n with
  | O => Some (Ok [])
  | S n' =>
      match f i with
      | None => None
      | Some (Err e) => Some (Err e)
      | Some (Ok x) =>
          match seq_values f n' (S i) with
          | None => None
          | Some (Err e) => Some (Err e)
          | Some (Ok xs) => Some (Ok (x :: xs))
          end
      end
  end.

Section Walk.
  Variable B : Type.
  Variable dcount : list B -> nat.      (* int(unpacker.value(counter schema, bytes)) *)
  Variable r : list B.                  (* the record instance *)

  (* ---------------------------------------------------------------- LocationMaker.walk *)
  Fixpoint walkv (s : js) (st : nat) (an : wanchors) : res (wloc * wanchors) :=
    match s with
    | JAtom a sz => let l := WAtom a st sz in Ok (l, wreg a l an)
    | JArr a n its =>
        match walkv its st an with
        | Err e => Err e
        | Ok (sub, an1) =>
            let l := WArr st (wsize sub * n) (wsize sub) n sub its in Ok (l, wreg a l an1)
        end
    | JOdo a c its =>
        match wlookup (KName c) an with
        | None => Err KeyError
        | Some (WAtom _ cst csz) =>
            let n := dcount (slice r cst (cst + csz)) in
            match walkv its st an with
            | Err e => Err e
            | Ok (sub, an1) =>
                let l := WArr st (wsize sub * n) (wsize sub) n sub its in Ok (l, wreg a l an1)
            end
        | Some _ => Err TypeError
        end
    | JObj a ps =>
        match walkv_props ps st an with
        | Err e => Err e
        | Ok (pls, off, an1) => let l := WObj st (off - st) pls in Ok (l, wreg a l an1)
        end
    | JOne a alts =>
        match alts with
        | ANil => Err ValueError                     (* max() of an empty sequence *)
        | _ =>
            match walkv_alts alts st an with
            | Err e => Err e
            | Ok (als, an1) => let l := WOne st (wmax_size als) als in Ok (l, wreg a l an1)
            end
        end
    | JRef k => Ok (WRef st k, an)
    end
  with walkv_props (ps : props) (off : nat) (an : wanchors) : res (wprops * nat * wanchors) :=
    match ps with
    | PNil => Ok (WPNil, off, an)
    | PCons k p rest =>
        match walkv p off an with
        | Err e => Err e
        | Ok (pl, an1) =>
            match walkv_props rest (off + wsize pl) (wreg (js_anchor p) pl an1) with
            | Err e => Err e
            | Ok (rl, off', an2) => Ok (WPCons k pl rl, off', an2)
            end
        end
    end
  with walkv_alts (alts : jalts) (st : nat) (an : wanchors) : res (walts * wanchors) :=
    match alts with
    | ANil => Ok (WANil, an)
    | ACons s rest =>
        match walkv s st an with
        | Err e => Err e
        | Ok (l, an1) =>
            match walkv_alts rest st an1 with
            | Err e => Err e
            | Ok (ls, an2) => Ok (WACons l ls, an2)
            end
        end
    end.

  (* ---------------------------------------------------------------- NDNav: name, index, raw *)
  Record vnav := mkvnav { vn_loc : wloc; vn_an : wanchors }.

  Definition vnav_of (s : js) : res vnav :=
    match walkv s 0 [] with Ok (l, an) => Ok (mkvnav l an) | Err e => Err e end.

  Definition vnav_name (v : vnav) (k : key) : res vnav :=
    match vn_loc v with
    | WObj _ _ ps =>
        match wfind k ps with
        | None => Err KeyError
        | Some (WRef _ t) =>
            match wlookup t (vn_an v) with Some l => Ok (mkvnav l (vn_an v)) | None => Err KeyError end
        | Some l => Ok (mkvnav l (vn_an v))
        end
    | _ => Err TypeError
    end.

  Definition vnav_index (v : vnav) (i : nat) : res vnav :=
    match vn_loc v with
    | WArr st _ isz cnt _ sch =>
        if cnt <=? i then Err IndexError
        else match walkv sch (st + isz * i) [] with
             | Ok (l, an) => Ok (mkvnav l an)
             | Err e => Err e
             end
    | _ => Err TypeError
    end.

  (* NDNav.index as written takes any Python int: the only test is  index >= item_count.
     The start handed to the fresh LocationMaker, as an integer. *)
  Definition index_start_z (v : vnav) (z : Z) : res Z :=
    match vn_loc v with
    | WArr st _ isz cnt _ _ =>
        if (Z.of_nat cnt <=? z)%Z then Err IndexError else Ok (Z.of_nat st + Z.of_nat isz * z)%Z
    | _ => Err TypeError
    end.

  Definition vnav_step (v : vnav) (s : wstep) : res vnav :=
    match s with SKey k => vnav_name v k | SIdx i => vnav_index v i end.

  Fixpoint vnav_path (v : vnav) (p : list wstep) : res vnav :=
    match p with
    | [] => Ok v
    | s :: p' => match vnav_step v s with Ok v' => vnav_path v' p' | Err e => Err e end
    end.

  (* NDNav.raw: instance[location.start : location.end] *)
  Definition vnav_raw (v : vnav) : list B := slice r (wstart (vn_loc v)) (wend (vn_loc v)).

  (* ---------------------------------------------------------------- value *)
  Variable A : Type.
  Variable dec : option key -> list B -> res A.   (* unpacker.value(schema of that atom, bytes) *)

  Section Body.
    Variable an : wanchors.
    Variable deref : wloc -> nat -> vres (pv A).   (* value of the location a $ref resolved to *)

    Fixpoint value_body (l : wloc) (off : nat) : vres (pv A) :=
      match l with
      | WAtom a st sz =>
          match dec a (slice r (st + off) (st + sz + off)) with
          | Ok x => Some (Ok (PAtom x))
          | Err e => Some (Err e)
          end
      | WArr st sz isz cnt it sch =>
          match seq_values (fun i => value_body it (off + i * isz)) cnt 0 with
          | None => None
          | Some (Err e) => Some (Err e)
          | Some (Ok xs) => Some (Ok (PList xs))
          end
      | WObj st sz ps =>
          match props_body ps off with
          | None => None
          | Some (Err e) => Some (Err e)
          | Some (Ok d) => Some (Ok (PDict d))
          end
      | WOne st sz alts =>
          match alts with
          | WANil => Some (Err ValueError)            (* first, *others = () *)
          | WACons first _ => value_body first off
          end
      | WRef st t =>
          match wlookup t an with
          | None => Some (Err KeyError)
          | Some target => deref target off
          end
      end
    with props_body (ps : wprops) (off : nat) : vres (list (key * pv A)) :=
      match ps with
      | WPNil => Some (Ok [])
      | WPCons k l rest =>
          match value_body l off with
          | None => None
          | Some (Err e) => Some (Err e)
          | Some (Ok x) =>
              match props_body rest off with
              | None => None
              | Some (Err e) => Some (Err e)
              | Some (Ok d) => Some (Ok ((k, x) :: d))
              end
          end
      end.
  End Body.

  Fixpoint wvalue (fuel : nat) (an : wanchors) : wloc -> nat -> vres (pv A) :=
    match fuel with
    | O => value_body an (fun _ _ => None)
    | S f => value_body an (wvalue f an)
    end.

  (* NDNav.value: location.value(instance), offset 0 *)
  Definition vnav_value (v : vnav) : vres (pv A) := wvalue (length (vn_an v)) (vn_an v) (vn_loc v) 0.

  (* Row.values: [nav.name(name).value() for name in schema.properties] *)
  Fixpoint values_of (v : vnav) (ks : list key) : vres (list (pv A)) :=
    match ks with
    | [] => Some (Ok [])
    | k :: t =>
        match vnav_name v k with
        | Err e => Some (Err e)
        | Ok v' =>
            match vnav_value v' with
            | None => None
            | Some (Err e) => Some (Err e)
            | Some (Ok x) =>
                match values_of v t with
                | None => None
                | Some (Err e) => Some (Err e)
                | Some (Ok xs) => Some (Ok (x :: xs))
                end
            end
        end
    end.

  Definition row_values (v : vnav) : vres (list (pv A)) :=
    match vn_loc v with
    | WObj _ _ ps => values_of v (wkeys ps)
    | _ => Some (Err AttributeError)              (* schema.properties of a non-object schema *)
    end.

  (* ---------------------------------------------------------------- which bytes value() reads *)
  (* the slices [a, b) handed to the decoder while the value of l at off is computed, when nothing
     raises on the way (an upper bound otherwise); does not look at the record *)
  Section Foot.
    Variable an : wanchors.
    Variable dfoot : wloc -> nat -> list (nat * nat).
    Fixpoint foot_body (l : wloc) (off : nat) : list (nat * nat) :=
      match l with
      | WAtom a st sz => [(st + off, st + sz + off)]
      | WArr st sz isz cnt it sch => flat_map (fun i => foot_body it (off + i * isz)) (seq 0 cnt)
      | WObj st sz ps => foot_props ps off
      | WOne st sz alts => match alts with WANil => [] | WACons first _ => foot_body first off end
      | WRef st t => match wlookup t an with None => [] | Some target => dfoot target off end
      end
    with foot_props (ps : wprops) (off : nat) : list (nat * nat) :=
      match ps with
      | WPNil => []
      | WPCons k l rest => foot_body l off ++ foot_props rest off
      end.
  End Foot.

  Fixpoint wfoot (fuel : nat) (an : wanchors) : wloc -> nat -> list (nat * nat) :=
    match fuel with
    | O => foot_body an (fun _ _ => [])
    | S f => foot_body an (wfoot f an)
    end.

  Definition vnav_foot (v : vnav) : list (nat * nat) := wfoot (length (vn_an v)) (vn_an v) (vn_loc v) 0.

  (* every slice value() reads lies inside the location's own [start, end) *)
  Definition foot_inside (v : vnav) : bool :=
    forallb (fun ab => (wstart (vn_loc v) <=? fst ab) && (snd ab <=? wend (vn_loc v))) (vnav_foot v).
End Walk.

Arguments walkv {B}.
Arguments walkv_props {B}.
Arguments walkv_alts {B}.
Arguments vnav_of {B}.
Arguments vnav_index {B}.
Arguments vnav_step {B}.
Arguments vnav_path {B}.
Arguments vnav_raw {B}.
Arguments value_body {B} r {A}.
Arguments props_body {B} r {A}.
Arguments wvalue {B} r {A}.
Arguments vnav_value {B} r {A}.
Arguments values_of {B} r {A}.
Arguments row_values {B} r {A}.

(* ------------------------------------------------------------------ schemas whose walk does not depend on
   where it starts or on what has been registered before: no $ref, no OCCURS DEPENDING ON *)
Fixpoint simple (s : js) : bool :=
  match s with
  | JAtom _ _ => true
  | JArr _ _ its => simple its
  | JOdo _ _ _ => false
  | JObj _ ps => simple_props ps
  | JOne _ alts => simple_alts alts
  | JRef _ => false
  end
with simple_props (ps : props) : bool :=
  match ps with PNil => true | PCons _ s r => simple s && simple_props r end
with simple_alts (alts : jalts) : bool :=
  match alts with ANil => true | ACons s r => simple s && simple_alts r end.

(* a location moved by d *)
Fixpoint wshift (d : nat) (l : wloc) : wloc :=
  match l with
  | WAtom a st sz => WAtom a (st + d) sz
  | WArr st sz isz cnt it sch => WArr (st + d) sz isz cnt (wshift d it) sch
  | WObj st sz ps => WObj (st + d) sz (wshift_props d ps)
  | WOne st sz alts => WOne (st + d) sz (wshift_alts d alts)
  | WRef st t => WRef (st + d) t
  end
with wshift_props (d : nat) (ps : wprops) : wprops :=
  match ps with WPNil => WPNil | WPCons k l r => WPCons k (wshift d l) (wshift_props d r) end
with wshift_alts (d : nat) (ls : walts) : walts :=
  match ls with WANil => WANil | WACons l r => WACons (wshift d l) (wshift_alts d r) end.
