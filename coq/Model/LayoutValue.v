(* C10: the VALUE level of non-delimited navigation, as the code is now.

     schema_instance.py  AtomicLocation / ArrayLocation / ObjectLocation / OneOfLocation / RefToLocation
                         .value(instance, offset) and .raw; LocationMaker.walk; NDNav.name / index / value / raw
     workbook.py         Row.values

   Model/Layout.v (C01) keeps, of a Location, only start and size.  value() also needs the SCHEMA of an
   AtomicLocation (unpacker.value(schema, bytes) decodes by the item's own USAGE / PICTURE), so the location
   tree is repeated here with that one annotation: [WAtom a st sz] carries the atom's anchor, which is how
   the per-atom decoder [dec] is indexed.  [erase] forgets it again; Proofs/LayoutValueP.v shows that
   [walkv] erases to Layout.walk and vnav_name / vnav_index to nav_name / nav_index, so everything C01 says
   about starts and ends holds of these locations as well.

   value(), branch by branch:
     AtomicLocation   unpacker.value(schema, instance[start+offset : end+offset])            may raise
     ArrayLocation    [items.value(instance, offset + i*item_size) for i in range(item_count)]
                      items is the location of the FIRST occurrence, shifted; not a re-walk
     ObjectLocation   {name: properties[name].value(instance, offset) for name in schema.properties}
                      every property: also the REDEFINES-x oneOf entries and the $ref placeholders
     OneOfLocation    first, *others = alternatives.values(); first.value(instance, offset)
     RefToLocation    anchors[name].value(instance, offset)     KeyError; anchors is the maker's shared dict
   Evaluation is left to right and the first exception escapes.

   A $ref resolves through the anchors to a location that is not a sub-term, so the recursion is
   [value_body] (structural, with the treatment of a resolved $ref as a parameter) iterated [fuel] times.
   [None] = out of fuel: on a cyclic $ref chain Python raises RecursionError.  vnav_value supplies
   fuel = number of registered anchors (an acyclic chain of references cannot be longer).
   Results do not depend on the fuel once they are [Some] (Proofs: wvalue_mono).

   Not modelled: OneOfLocation keeps its alternatives in a dict keyed by $anchor / title / 'UNNAMED';
   two alternatives with the same key collapse into one.  Alternatives emitted by cobol_parser carry
   distinct names; the js tree of Model/Layout.v has no titles.  The ODO counter is read with the total
   [dcount] exactly as in Model/Layout.v (a counter holding undecodable bytes makes from_instance raise).

   walkv, vnav_of, vnav_name, vnav_index, index_start_z and vnav_raw evaluate the same rules as Model/Layout.v, read
   from the current source into Gen/LayoutParams.v by harness/t1_layout.py; Proofs/LayoutValueP.v starts with what
   they amount to under the rules as they are now. *)
From Coq Require Import List Arith NArith ZArith Bool.
Import ListNotations.
Require Import SR.Base.Res SR.Spec.Layout SR.Model.LayoutRule SR.Gen.LayoutParams SR.Model.Layout.
Open Scope nat_scope.

(* ------------------------------------------------------------------ Python values *)
Section PV.
  Variable A : Type.                    (* a decoded elementary value *)
  Inductive pv :=
  | PAtom (v : A)
  | PList (l : list pv)
  | PDict (d : list (key * pv)).

  Fixpoint dlookup (k : key) (d : list (key * pv)) : option pv :=
    match d with
    | [] => None
    | (k', x) :: t => if key_eqb k k' then Some x else dlookup k t
    end.
End PV.
Arguments PAtom {A}.
Arguments PList {A}.
Arguments PDict {A}.
Arguments dlookup {A}.

(* ------------------------------------------------------------------ locations, with the atom's schema *)
Inductive wloc :=
| WAtom (a : option key) (st sz : nat)
| WArr  (st sz isz cnt : nat) (it : wloc) (sch : js)
| WObj  (st sz : nat) (ps : wprops)
| WOne  (st sz : nat) (alts : walts)
| WRef  (st : nat) (target : key)
with wprops := WPNil | WPCons (k : key) (l : wloc) (r : wprops)
with walts := WANil | WACons (l : wloc) (r : walts).

Scheme wloc_ind3 := Induction for wloc Sort Prop
with wprops_ind3 := Induction for wprops Sort Prop
with walts_ind3 := Induction for walts Sort Prop.
Combined Scheme wloc_wprops_walts_ind from wloc_ind3, wprops_ind3, walts_ind3.

Fixpoint erase (l : wloc) : loc :=
  match l with
  | WAtom _ st sz => LAtom st sz
  | WArr st sz isz cnt it sch => LArr st sz isz cnt (erase it) sch
  | WObj st sz ps => LObj st sz (erase_props ps)
  | WOne st sz alts => LOne st sz (erase_alts alts)
  | WRef st t => LRef st t
  end
with erase_props (ps : wprops) : lprops :=
  match ps with WPNil => LPNil | WPCons k l r => LPCons k (erase l) (erase_props r) end
with erase_alts (ls : walts) : lalts :=
  match ls with WANil => LANil | WACons l r => LACons (erase l) (erase_alts r) end.

Definition wstart (l : wloc) : nat :=
  match l with WAtom _ s _ | WArr s _ _ _ _ _ | WObj s _ _ | WOne s _ _ | WRef s _ => s end.
Definition wsize (l : wloc) : nat :=
  match l with WAtom _ _ z | WArr _ z _ _ _ _ | WObj _ z _ | WOne _ z _ => z | WRef s _ => ref_size s end.
Definition wend (l : wloc) : nat := wstart l + wsize l.

Definition wanchors := list (key * wloc).
Definition wreg (a : option key) (l : wloc) (an : wanchors) : wanchors :=
  match a with Some k => (k, l) :: an | None => an end.
Fixpoint wlookup (k : key) (an : wanchors) : option wloc :=
  match an with
  | [] => None
  | (k', l) :: r => if key_eqb k k' then Some l else wlookup k r
  end.
Definition erase_an (an : wanchors) : anchors := map (fun p => (fst p, erase (snd p))) an.

Definition wpost_reg (a : option key) (l : wloc) (an : wanchors) : wanchors :=
  if walk_registers_anchor then wreg a l an else an.
Definition wloop_reg (a : option key) (l : wloc) (an : wanchors) : wanchors :=
  if obj_loop_registers_anchor then wreg a l an else an.

(* the aggregates of Model/Layout.v, over these locations *)
Fixpoint wmax_size (ls : walts) : nat :=
  match ls with WANil => 0 | WACons l r => Nat.max (wsize l) (wmax_size r) end.
Fixpoint wsum_size (ls : walts) : nat :=
  match ls with WANil => 0 | WACons l r => wsize l + wsum_size r end.
Fixpoint wmin_size (ls : walts) : nat :=
  match ls with WANil => 0 | WACons l WANil => wsize l | WACons l r => Nat.min (wsize l) (wmin_size r) end.
Definition wfirst_size (ls : walts) : nat := match ls with WANil => 0 | WACons l _ => wsize l end.
Fixpoint wlast_size (ls : walts) : nat :=
  match ls with WANil => 0 | WACons l WANil => wsize l | WACons _ r => wlast_size r end.
Definition wagg_alts (g : agg) (ls : walts) : nat :=
  match g with
  | AggSum => wsum_size ls | AggMax => wmax_size ls | AggMin => wmin_size ls
  | AggFirst => wfirst_size ls | AggLast => wlast_size ls
  end.
Fixpoint wsum_props (ps : wprops) : nat :=
  match ps with WPNil => 0 | WPCons _ l r => wsize l + wsum_props r end.
Fixpoint wmax_props (ps : wprops) : nat :=
  match ps with WPNil => 0 | WPCons _ l r => Nat.max (wsize l) (wmax_props r) end.
Fixpoint wmin_props (ps : wprops) : nat :=
  match ps with WPNil => 0 | WPCons _ l WPNil => wsize l | WPCons _ l r => Nat.min (wsize l) (wmin_props r) end.
Definition wfirst_props (ps : wprops) : nat := match ps with WPNil => 0 | WPCons _ l _ => wsize l end.
Fixpoint wlast_props (ps : wprops) : nat :=
  match ps with WPNil => 0 | WPCons _ l WPNil => wsize l | WPCons _ _ r => wlast_props r end.
Definition wagg_props (g : agg) (ps : wprops) : nat :=
  match g with
  | AggSum => wsum_props ps | AggMax => wmax_props ps | AggMin => wmin_props ps
  | AggFirst => wfirst_props ps | AggLast => wlast_props ps
  end.
Definition wobj_size (s e : nat) (ps : wprops) : nat :=
  match obj_size_override with Some g => wagg_props g ps | None => loc_size s e end.

Definition warr_loc (es ee eisz ecnt : lexpr) (st : nat) (sub : wloc) (cnt : nat) (its : js) : wloc :=
  let v := env_arr st (wsize sub) cnt in
  WArr (loc_start (eval v es) (eval v ee)) (loc_size (eval v es) (eval v ee)) (eval v eisz) (eval v ecnt) sub its.

Fixpoint wfind (k : key) (ps : wprops) : option wloc :=
  match ps with
  | WPNil => None
  | WPCons k' l rest => if key_eqb k k' then Some l else wfind k rest
  end.

Fixpoint wkeys (ps : wprops) : list key :=
  match ps with WPNil => [] | WPCons k _ r => k :: wkeys r end.

(* a navigation step: a property name (a COBOL name or a REDEFINES-x entry) or an index *)
Inductive wstep := SKey (k : key) | SIdx (i : nat).

(* [f i; f (i+1); ...] (n calls), left to right, the first failure escapes.
   None = out of fuel, Some (Err e) = raised *)
Definition vres (T : Type) := option (res T).

Fixpoint seq_values {T} (f : nat -> vres T) (n i : nat) : vres (list T) :=
  match n with
  | O => Some (Ok [])
  | S n' =>
      match f i with
      | None => None
      | Some (Err e) => Some (Err e)
      | Some (Ok x) =>
          match seq_values f n' (S i) with
          | None => None
          | Some (Err e) => Some (Err e)
          | Some (Ok xs) => Some (Ok (x :: xs))
          end
      end
  end.

Section Walk.
  Variable B : Type.
  Variable dcount : list B -> nat.      (* int(unpacker.value(counter schema, bytes)) *)
  Variable r : list B.                  (* the record instance *)

  (* ---------------------------------------------------------------- LocationMaker.walk
     the walk of Model/Layout.v (same rules, read from Gen/LayoutParams.v), keeping the atom's anchor *)
  Definition wodo_count (c : id) (an : wanchors) : res nat :=
    match odo_count_src with
    | CsAnchorValue =>
        match wlookup (KName c) an with
        | None => Err KeyError
        | Some (WAtom _ cst csz) => Ok (dcount (slice r cst (cst + csz)))
        | Some _ => Err TypeError
        end
    | CsAttrMaxItems => Ok 0
    end.

  Fixpoint walkv (s : js) (st : nat) (an : wanchors) : res (wloc * wanchors) :=
    match s with
    | JAtom a sz =>
        match dispatch CAtomic with
        | Some CAtomic =>
            let v := env_atom st sz in
            let l := WAtom a (loc_start (eval v atom_start) (eval v atom_end)) (loc_size (eval v atom_start) (eval v atom_end)) in
            Ok (l, wpost_reg a l an)
        | _ => Err DesignError
        end
    | JArr a n its =>
        match dispatch CArray with
        | Some CArray =>
            match arr_count n with
            | Err e => Err e
            | Ok cnt =>
                match walkv its (eval (env_arr st 0 cnt) arr_item_start) an with
                | Err e => Err e
                | Ok (sub, an1) =>
                    let l := warr_loc arr_start arr_end arr_item_size arr_item_count st sub cnt its in Ok (l, wpost_reg a l an1)
                end
            end
        | _ => Err DesignError
        end
    | JOdo a c its =>
        match dispatch CDependsOn with
        | Some CDependsOn =>
            match wodo_count c an with
            | Err e => Err e
            | Ok cnt =>
                match walkv its (eval (env_arr st 0 cnt) odo_item_start) an with
                | Err e => Err e
                | Ok (sub, an1) =>
                    let l := warr_loc odo_start odo_end odo_item_size odo_item_count st sub cnt its in Ok (l, wpost_reg a l an1)
                end
            end
        | Some CArray =>
            match odo_as_arr_count with
            | Err e => Err e
            | Ok cnt =>
                match walkv its (eval (env_arr st 0 cnt) arr_item_start) an with
                | Err e => Err e
                | Ok (sub, an1) =>
                    let l := warr_loc arr_start arr_end arr_item_size arr_item_count st sub cnt its in Ok (l, wpost_reg a l an1)
                end
            end
        | _ => Err DesignError
        end
    | JObj a ps =>
        match dispatch CObject with
        | Some CObject =>
            match walkv_props ps (eval (env_start st) obj_first_offset) an with
            | Err e => Err e
            | Ok (pls, off, an1) =>
                let v := env_obj st off in
                let l := WObj (loc_start (eval v obj_start) (eval v obj_end)) (wobj_size (eval v obj_start) (eval v obj_end) pls) pls in
                Ok (l, wpost_reg a l an1)
            end
        | _ => Err DesignError
        end
    | JOne a alts =>
        match dispatch COneOf with
        | Some COneOf =>
            match alts, agg_empty one_agg with
            | ANil, Err e => Err e                   (* max() of an empty sequence *)
            | _, _ =>
                match walkv_alts alts (eval (env_start st) one_alt_start) an with
                | Err e => Err e
                | Ok (als, an1) =>
                    let v := env_one st (wagg_alts one_agg als) in
                    let l := WOne (loc_start (eval v one_start) (eval v one_end)) (loc_size (eval v one_start) (eval v one_end)) als in
                    Ok (l, wpost_reg a l an1)
                end
            end
        | _ => Err DesignError
        end
    | JRef k =>
        match dispatch CRefTo with
        | Some CRefTo =>
            let v := env_start st in Ok (WRef (loc_start (eval v ref_start) (eval v ref_end)) k, an)
        | _ => Err DesignError
        end
    end
  with walkv_props (ps : props) (off : nat) (an : wanchors) : res (wprops * nat * wanchors) :=
    match ps with
    | PNil => Ok (WPNil, off, an)
    | PCons k p rest =>
        match walkv p (eval (env_off off) obj_child_start) an with
        | Err e => Err e
        | Ok (pl, an1) =>
            match walkv_props rest (eval (env_step off (wsize pl)) obj_step) (wloop_reg (js_anchor p) pl an1) with
            | Err e => Err e
            | Ok (rl, off', an2) => Ok (WPCons k pl rl, off', an2)
            end
        end
    end
  with walkv_alts (alts : jalts) (st : nat) (an : wanchors) : res (walts * wanchors) :=
    match alts with
    | ANil => Ok (WANil, an)
    | ACons s rest =>
        match walkv s st an with
        | Err e => Err e
        | Ok (l, an1) =>
            match walkv_alts rest st an1 with
            | Err e => Err e
            | Ok (ls, an2) => Ok (WACons l ls, an2)
            end
        end
    end.

  (* ---------------------------------------------------------------- NDNav: name, index, raw *)
  Record vnav := mkvnav { vn_loc : wloc; vn_an : wanchors }.

  Definition vfrom_instance (s : js) (start : nat) : res (wloc * wanchors) :=
    walkv s (eval (env_start start) from_instance_start) [].

  Definition vnav_of (s : js) : res vnav :=
    match vfrom_instance s from_instance_default with Ok (l, an) => Ok (mkvnav l an) | Err e => Err e end.

  Definition vnav_name (v : vnav) (k : key) : res vnav :=
    match vn_loc v with
    | WObj _ _ ps =>
        match wfind k ps with
        | None => Err KeyError
        | Some (WRef st t) =>
            if name_via_referent
            then match wlookup t (vn_an v) with Some l => Ok (mkvnav l (vn_an v)) | None => Err KeyError end
            else Ok (mkvnav (WRef st t) (vn_an v))
        | Some l => Ok (mkvnav l (vn_an v))
        end
    | _ => Err TypeError
    end.

  Definition vnav_index (v : vnav) (i : nat) : res vnav :=
    match vn_loc v with
    | WArr st _ isz cnt _ sch =>
        if refused_low index_refuse_low i || refused index_refuse i cnt then Err IndexError
        else match vfrom_instance sch (eval (env_index st isz cnt i) index_start) with
             | Ok (l, an) => Ok (mkvnav l an)
             | Err e => Err e
             end
    | _ => Err TypeError
    end.

  (* NDNav.index takes any Python int.  The tests that refuse it, as Gen/LayoutParams.v reads them in the source:
       index <lo: OP constant>  or  index <hi: OP> item_count        (now: index < 0 or index >= item_count)
     and the start handed to the fresh LocationMaker, as an integer.  [index_start_with] takes the two tests as
     arguments so that a theorem can also speak about the source before fix 08e8809 (no test against 0). *)
  Definition index_start_with (lo : option (cmp * nat)) (hi : option cmp) (v : vnav) (z : Z) : res Z :=
    match vn_loc v with
    | WArr st _ isz cnt _ _ =>
        if refused_lowZ lo z || refusedZ hi z (Z.of_nat cnt) then Err IndexError
        else Ok (evalZ (fun x => match x with VStart => evalZ (env_indexZ st isz cnt z) index_start | _ => 0%Z end)
                   from_instance_start)
    | _ => Err TypeError
    end.
  Definition index_start_z (v : vnav) (z : Z) : res Z := index_start_with index_refuse_low index_refuse v z.

  Definition vnav_step (v : vnav) (s : wstep) : res vnav :=
    match s with SKey k => vnav_name v k | SIdx i => vnav_index v i end.

  Fixpoint vnav_path (v : vnav) (p : list wstep) : res vnav :=
    match p with
    | [] => Ok v
    | s :: p' => match vnav_step v s with Ok v' => vnav_path v' p' | Err e => Err e end
    end.

  (* NDNav.raw: instance[location.start : location.end] *)
  Definition vnav_raw (v : vnav) : list B :=
    let ev := env_raw (wstart (vn_loc v)) (wend (vn_loc v)) in slice r (eval ev raw_lo) (eval ev raw_hi).

  (* ---------------------------------------------------------------- value *)
  Variable A : Type.
  Variable dec : option key -> list B -> res A.   (* unpacker.value(schema of that atom, bytes) *)

  Section Body.
    Variable an : wanchors.
    Variable deref : wloc -> nat -> vres (pv A).   (* value of the location a $ref resolved to *)

    (* the rules (slice of an atom, offsets and count of an array's occurrences, the offset handed on, which alternative)
       are read from the value methods of the source: Gen/LayoutParams.v *)
    Fixpoint value_body (l : wloc) (off : nat) : vres (pv A) :=
      match l with
      | WAtom a st sz =>
          let ev := env_val st (st + sz) off in
          match dec a (slice r (eval ev atomval_lo) (eval ev atomval_hi)) with
          | Ok x => Some (Ok (PAtom x))
          | Err e => Some (Err e)
          end
      | WArr st sz isz cnt it sch =>
          match seq_values (fun i => value_body it (eval (env_arrval off i isz cnt) arrval_offset))
                           (eval (env_arrval off 0 isz cnt) arrval_count) 0 with
          | None => None
          | Some (Err e) => Some (Err e)
          | Some (Ok xs) => Some (Ok (PList xs))
          end
      | WObj st sz ps =>
          match props_body ps (eval (env_val st (st + sz) off) objval_offset) with
          | None => None
          | Some (Err e) => Some (Err e)
          | Some (Ok d) => Some (Ok (PDict d))
          end
      | WOne st sz alts =>
          match oneval_pick with
          | PickFirst =>
              match alts with
              | WANil => Some (Err ValueError)            (* first, *others = () *)
              | WACons first _ => value_body first (eval (env_val st (st + sz) off) oneval_offset)
              end
          | PickLast =>
              (fix last (ls : walts) : vres (pv A) :=
                 match ls with
                 | WANil => Some (Err ValueError)
                 | WACons l0 WANil => value_body l0 (eval (env_val st (st + sz) off) oneval_offset)
                 | WACons _ rest => last rest
                 end) alts
          end
      | WRef st t =>
          match wlookup t an with
          | None => Some (Err KeyError)
          | Some target => deref target (eval (env_val st st off) refval_offset)
          end
      end
    with props_body (ps : wprops) (off : nat) : vres (list (key * pv A)) :=
      match ps with
      | WPNil => Some (Ok [])
      | WPCons k l rest =>
          match value_body l off with
          | None => None
          | Some (Err e) => Some (Err e)
          | Some (Ok x) =>
              match props_body rest off with
              | None => None
              | Some (Err e) => Some (Err e)
              | Some (Ok d) => Some (Ok ((k, x) :: d))
              end
          end
      end.
  End Body.

  Fixpoint wvalue (fuel : nat) (an : wanchors) : wloc -> nat -> vres (pv A) :=
    match fuel with
    | O => value_body an (fun _ _ => None)
    | S f => value_body an (wvalue f an)
    end.

  (* NDNav.value: location.value(instance): the offset is the methods' default *)
  Definition vnav_value (v : vnav) : vres (pv A) := wvalue (length (vn_an v)) (vn_an v) (vn_loc v) value_default_offset.

  (* Row.values: [nav.name(name).value() for name in schema.properties] *)
  Fixpoint values_of (v : vnav) (ks : list key) : vres (list (pv A)) :=
    match ks with
    | [] => Some (Ok [])
    | k :: t =>
        match vnav_name v k with
        | Err e => Some (Err e)
        | Ok v' =>
            match vnav_value v' with
            | None => None
            | Some (Err e) => Some (Err e)
            | Some (Ok x) =>
                match values_of v t with
                | None => None
                | Some (Err e) => Some (Err e)
                | Some (Ok xs) => Some (Ok (x :: xs))
                end
            end
        end
    end.

  Definition row_values (v : vnav) : vres (list (pv A)) :=
    match vn_loc v with
    | WObj _ _ ps => values_of v (wkeys ps)
    | _ => Some (Err AttributeError)              (* schema.properties of a non-object schema *)
    end.

  (* ---------------------------------------------------------------- which bytes value() reads *)
  (* the slices [a, b) handed to the decoder while the value of l at off is computed, when nothing
     raises on the way (an upper bound otherwise); does not look at the record *)
  Section Foot.
    Variable an : wanchors.
    Variable dfoot : wloc -> nat -> list (nat * nat).
    Fixpoint foot_body (l : wloc) (off : nat) : list (nat * nat) :=
      match l with
      | WAtom a st sz => let ev := env_val st (st + sz) off in [(eval ev atomval_lo, eval ev atomval_hi)]
      | WArr st sz isz cnt it sch =>
          flat_map (fun i => foot_body it (eval (env_arrval off i isz cnt) arrval_offset))
                   (seq 0 (eval (env_arrval off 0 isz cnt) arrval_count))
      | WObj st sz ps => foot_props ps (eval (env_val st (st + sz) off) objval_offset)
      | WOne st sz alts =>
          match oneval_pick with
          | PickFirst =>
              match alts with WANil => [] | WACons first _ => foot_body first (eval (env_val st (st + sz) off) oneval_offset) end
          | PickLast =>
              (fix last (ls : walts) : list (nat * nat) :=
                 match ls with
                 | WANil => []
                 | WACons l0 WANil => foot_body l0 (eval (env_val st (st + sz) off) oneval_offset)
                 | WACons _ rest => last rest
                 end) alts
          end
      | WRef st t =>
          match wlookup t an with None => [] | Some target => dfoot target (eval (env_val st st off) refval_offset) end
      end
    with foot_props (ps : wprops) (off : nat) : list (nat * nat) :=
      match ps with
      | WPNil => []
      | WPCons k l rest => foot_body l off ++ foot_props rest off
      end.
  End Foot.

  Fixpoint wfoot (fuel : nat) (an : wanchors) : wloc -> nat -> list (nat * nat) :=
    match fuel with
    | O => foot_body an (fun _ _ => [])
    | S f => foot_body an (wfoot f an)
    end.

  Definition vnav_foot (v : vnav) : list (nat * nat) := wfoot (length (vn_an v)) (vn_an v) (vn_loc v) value_default_offset.

  (* every slice value() reads lies inside the location's own [start, end) *)
  Definition foot_inside (v : vnav) : bool :=
    forallb (fun ab => (wstart (vn_loc v) <=? fst ab) && (snd ab <=? wend (vn_loc v))) (vnav_foot v).
End Walk.

Arguments walkv {B}.
Arguments walkv_props {B}.
Arguments walkv_alts {B}.
Arguments wodo_count {B}.
Arguments vfrom_instance {B}.
Arguments vnav_of {B}.
Arguments vnav_index {B}.
Arguments vnav_step {B}.
Arguments vnav_path {B}.
Arguments vnav_raw {B}.
Arguments value_body {B} r {A}.
Arguments props_body {B} r {A}.
Arguments wvalue {B} r {A}.
Arguments vnav_value {B} r {A}.
Arguments values_of {B} r {A}.
Arguments row_values {B} r {A}.

(* ------------------------------------------------------------------ schemas whose walk does not depend on
   where it starts or on what has been registered before: no $ref, no OCCURS DEPENDING ON *)
Fixpoint simple (s : js) : bool :=
  match s with
  | JAtom _ _ => true
  | JArr _ _ its => simple its
  | JOdo _ _ _ => false
  | JObj _ ps => simple_props ps
  | JOne _ alts => simple_alts alts
  | JRef _ => false
  end
with simple_props (ps : props) : bool :=
  match ps with PNil => true | PCons _ s r => simple s && simple_props r end
with simple_alts (alts : jalts) : bool :=
  match alts with ANil => true | ACons s r => simple s && simple_alts r end.

(* a location moved by d *)
Fixpoint wshift (d : nat) (l : wloc) : wloc :=
  match l with
  | WAtom a st sz => WAtom a (st + d) sz
  | WArr st sz isz cnt it sch => WArr (st + d) sz isz cnt (wshift d it) sch
  | WObj st sz ps => WObj (st + d) sz (wshift_props d ps)
  | WOne st sz alts => WOne (st + d) sz (wshift_alts d alts)
  | WRef st t => WRef (st + d) t
  end
with wshift_props (d : nat) (ps : wprops) : wprops :=
  match ps with WPNil => WPNil | WPCons k l r => WPCons k (wshift d l) (wshift_props d r) end
with wshift_alts (d : nat) (ls : walts) : walts :=
  match ls with WANil => WANil | WACons l r => WACons (wshift d l) (wshift_alts d r) end.
