(* Model of the NDJSON text layer as the C03 harness and the library use it (Python 3.12 json, C accelerators).

   Writer side   harness/c03.py _write_ndjson: for every data row
                   f.write(json.dumps(dict(zip(header, row)), ensure_ascii=ea) + LF)
                 on a file opened with newline='' : [ndjson_write].  The dict has str keys and str values, the default
                 separators are comma blank and colon blank.  encode_basestring / encode_basestring_ascii:
                 the quote and the backslash get a backslash; BS FF LF CR TAB their letter; every other code below
                 32 is backslash u + four lower-case hex digits; with ensure_ascii every code above 126 (DEL and
                 all non-ASCII) is escaped the same way, a code from 65536 up as the two escapes of its UTF-16
                 surrogate pair; with ensure_ascii=False everything else (U+0085, U+2028, U+2029, DEL, non-BMP) is
                 written as it is.  A lone surrogate code point is escaped like any other BMP code.
   Reader side   src/stingray/workbook.py JSONUnpacker.open: name.open(mode='r'), with or without newline='' as the
                 source says on every run (Gen/CsvOpenParams.ndjson_newline_raw; today without: universal newlines,
                 [Workbook.text_lines]): [ndjson_lines]; instance_iter: for line in the_file: json.loads(line): [ndjson_read].
                 json.loads: a leading U+FEFF is refused; JSONDecoder.decode skips blank TAB LF CR, scans one value
                 and refuses anything but the same white space after it.
                 _json.c _parse_object_unicode / scanstring_unicode (strict): see [parse_members], [scan_string].
                 Two bounds tests of scanstring are positional: a backslash-u escape needs at least one character
                 after its four digits, and a second escape is looked at after a HIGH surrogate only when at least
                 seven characters follow; then backslash, u and four hex digits are demanded in turn (bad digits
                 raise), and only a LOW surrogate is joined, anything else is scanned again from the same place.
                 Consequence: the two escapes of a high and a low surrogate that were two separate code points of
                 the str come back as ONE code point.
   The model parses objects whose values are strings.  Where the text leaves that grammar at a point at which
   json would accept another kind of value the model answers [Beyond] (it does not say what json does).
   json.JSONDecodeError is a ValueError. *)
From Coq Require Import NArith List Bool Arith.
Import ListNotations.
Require Import SR.Base.Res.
Require SR.Model.Workbook SR.Model.Csv.
Require Import SR.Gen.CsvOpenParams.
Open Scope N_scope.

Definition text := list N.
Definition doc := list (text * text).          (* dict items, keys distinct, in order *)

(* ------------------------------------------------------------------ writer *)
Definition hex_digit (k : N) : N := if k <? 10 then 48 + k else 87 + k.
Definition hex4 (n : N) : text :=
  [hex_digit ((n / 4096) mod 16); hex_digit ((n / 256) mod 16); hex_digit ((n / 16) mod 16); hex_digit (n mod 16)].
Definition u_escape (n : N) : text := 92 :: 117 :: hex4 n.

Definition escape_char (ea : bool) (c : N) : text :=
  if c =? 34 then [92; 34]
  else if c =? 92 then [92; 92]
  else if c =? 10 then [92; 110]
  else if c =? 13 then [92; 114]
  else if c =? 9 then [92; 116]
  else if c =? 8 then [92; 98]
  else if c =? 12 then [92; 102]
  else if c <? 32 then u_escape c
  else if ea && (126 <? c) then
    (if c <? 65536 then u_escape c
     else let v := c - 65536 in
          u_escape (55296 + (v / 1024) mod 1024) ++ u_escape (56320 + v mod 1024))
  else [c].

Definition escape (ea : bool) (s : text) : text := flat_map (escape_char ea) s.
Definition json_string (ea : bool) (s : text) : text := 34 :: escape ea s ++ [34].

Definition json_pair (ea : bool) (kv : text * text) : text :=
  json_string ea (fst kv) ++ 58 :: 32 :: json_string ea (snd kv).

Fixpoint json_pairs (ea : bool) (d : doc) : text :=
  match d with
  | [] => []
  | [kv] => json_pair ea kv
  | kv :: t => json_pair ea kv ++ 44 :: 32 :: json_pairs ea t
  end.

Definition json_object (ea : bool) (d : doc) : text := 123 :: json_pairs ea d ++ [125].

Definition ndjson_write (ea : bool) (docs : list doc) : text :=
  concat (map (fun d => json_object ea d ++ [10]) docs).

(* ------------------------------------------------------------------ reader: scanstring_unicode *)
Definition hex_val (c : N) : option N :=
  if (48 <=? c) && (c <=? 57) then Some (c - 48)
  else if (97 <=? c) && (c <=? 102) then Some (c - 87)
  else if (65 <=? c) && (c <=? 70) then Some (c - 55)
  else None.

Definition hex4_val (a b c e : N) : option N :=
  match hex_val a, hex_val b, hex_val c, hex_val e with
  | Some x, Some y, Some z, Some w => Some (((x * 16 + y) * 16 + z) * 16 + w)
  | _, _, _, _ => None
  end.

Definition is_high (v : N) : bool := (55296 <=? v) && (v <=? 56319).
Definition is_low (v : N) : bool := (56320 <=? v) && (v <=? 57343).
Definition join_surrogates (hi lo : N) : N := 65536 + (hi - 55296) * 1024 + (lo - 56320).

Definition unescape (e : N) : option N :=
  if e =? 34 then Some 34 else if e =? 92 then Some 92 else if e =? 47 then Some 47
  else if e =? 98 then Some 8 else if e =? 102 then Some 12 else if e =? 110 then Some 10
  else if e =? 114 then Some 13 else if e =? 116 then Some 9 else None.

(* the text after the opening quote; the string value and the text after the closing quote *)
Fixpoint scan_string (s : text) (acc : text) : res (text * text) :=
  match s with
  | [] => Err ValueError                                         (* Unterminated string *)
  | c :: t =>
      if c =? 34 then Ok (rev acc, t)
      else if c =? 92 then
        match t with
        | [] => Err ValueError                                   (* Unterminated string *)
        | e :: t1 =>
            if e =? 117 then
              match t1 with
              | h1 :: h2 :: h3 :: h4 :: t2 =>
                  match t2 with
                  | [] => Err ValueError                         (* end >= len: Invalid uXXXX escape *)
                  | b :: t2a =>
                      match hex4_val h1 h2 h3 h4 with
                      | None => Err ValueError
                      | Some v =>
                          if is_high v && (7 <=? length t2)%nat then
                            if b =? 92 then
                              match t2a with
                              | u :: t2b =>
                                  if u =? 117 then
                                    match t2b with
                                    | g1 :: g2 :: g3 :: g4 :: t3 =>
                                        match hex4_val g1 g2 g3 g4 with
                                        | None => Err ValueError
                                        | Some v2 =>
                                            if is_low v2 then scan_string t3 (join_surrogates v v2 :: acc)
                                            else scan_string t2 (v :: acc)
                                        end
                                    | _ => scan_string t2 (v :: acc)
                                    end
                                  else scan_string t2 (v :: acc)
                              | [] => scan_string t2 (v :: acc)
                              end
                            else scan_string t2 (v :: acc)
                          else scan_string t2 (v :: acc)
                      end
                  end
              | _ => Err ValueError                              (* Invalid uXXXX escape *)
              end
            else
              match unescape e with
              | Some x => scan_string t1 (x :: acc)
              | None => Err ValueError                           (* Invalid escape *)
              end
        end
      else if c <=? 31 then Err ValueError                       (* Invalid control character *)
      else scan_string t (c :: acc)
  end.

(* ------------------------------------------------------------------ reader: the object *)
Inductive outcome (A : Type) :=
| Done (a : A)            (* the call returned a *)
| Raise (e : exn)         (* the call raised e *)
| Beyond                  (* the text leaves the modelled grammar where json may accept more *)
| Fuel.                   (* the model ran out of fuel (never: the fuel is the length of the line) *)
Arguments Done {A} a.
Arguments Raise {A} e.
Arguments Beyond {A}.
Arguments Fuel {A}.

Definition is_ws (c : N) : bool := (c =? 32) || (c =? 9) || (c =? 10) || (c =? 13).

Fixpoint skip_ws (s : text) : text :=
  match s with
  | c :: t => if is_ws c then skip_ws t else s
  | [] => []
  end.

(* first characters of the JSON values other than a string *)
Definition value_start (c : N) : bool :=
  (c =? 123) || (c =? 91) || (c =? 110) || (c =? 116) || (c =? 102) || (c =? 78) || (c =? 73) || (c =? 45)
  || ((48 <=? c) && (c <=? 57)).

Fixpoint text_eqb (a b : text) : bool :=
  match a, b with
  | [], [] => true
  | x :: a', y :: b' => (x =? y) && text_eqb a' b'
  | _, _ => false
  end.

(* d[k] = v *)
Fixpoint dict_set (d : doc) (k v : text) : doc :=
  match d with
  | [] => [(k, v)]
  | (k', v') :: t => if text_eqb k' k then (k', v) :: t else (k', v') :: dict_set t k v
  end.

Definition parse_value (s : text) : outcome (text * text) :=
  match s with
  | [] => Raise ValueError                                       (* Expecting value *)
  | c :: t =>
      if c =? 34 then match scan_string t [] with Ok p => Done p | Err e => Raise e end
      else if value_start c then Beyond
      else Raise ValueError
  end.

(* s stands where a property name must begin *)
Fixpoint parse_members (fuel : nat) (s : text) (acc : doc) : outcome (doc * text) :=
  match fuel with
  | O => Fuel
  | S fuel' =>
      match s with
      | c :: t =>
          if c =? 34 then
            match scan_string t [] with
            | Err e => Raise e
            | Ok (key, r1) =>
                match skip_ws r1 with
                | c2 :: r2 =>
                    if c2 =? 58 then
                      match parse_value (skip_ws r2) with
                      | Done (v, r3) =>
                          let acc' := dict_set acc key v in
                          match skip_ws r3 with
                          | c3 :: r4 =>
                              if c3 =? 125 then Done (acc', r4)
                              else if c3 =? 44 then parse_members fuel' (skip_ws r4) acc'
                              else Raise ValueError              (* Expecting , delimiter *)
                          | [] => Raise ValueError
                          end
                      | Raise e => Raise e
                      | Beyond => Beyond
                      | Fuel => Fuel
                      end
                    else Raise ValueError                        (* Expecting : delimiter *)
                | [] => Raise ValueError
                end
            end
          else Raise ValueError                                  (* Expecting property name *)
      | [] => Raise ValueError
      end
  end.

(* json.loads(line) *)
Definition json_loads (line : text) : outcome doc :=
  if match line with c0 :: _ => c0 =? 65279 | [] => false end
  then Raise ValueError                                          (* Unexpected UTF-8 BOM *)
  else
      match skip_ws line with
      | [] => Raise ValueError                                   (* Expecting value *)
      | c :: t =>
          if c =? 123 then
            let r := skip_ws t in
            let body :=
              match r with
              | c1 :: r1 => if c1 =? 125 then Done ([], r1) else parse_members (length r) r []
              | [] => Raise ValueError
              end in
            match body with
            | Done (d, rest) => match skip_ws rest with [] => Done d | _ => Raise ValueError end   (* Extra data *)
            | Raise e => Raise e
            | Beyond => Beyond
            | Fuel => Fuel
            end
          else if (c =? 34) || value_start c then Beyond
          else Raise ValueError
      end.

(* the documents the iteration delivers and how it ended *)
Fixpoint read_lines (lines : list text) : list doc * outcome unit :=
  match lines with
  | [] => ([], Done tt)
  | l :: ls =>
      match json_loads l with
      | Done d => let (ds, o) := read_lines ls in (d :: ds, o)
      | Raise e => ([], Raise e)
      | Beyond => ([], Beyond)
      | Fuel => ([], Fuel)
      end
  end.

(* iter(the_file): by the open call of JSONUnpacker.open (Gen/CsvOpenParams.ndjson_newline_raw, read from the source) *)
Definition ndjson_lines (file : text) : list text :=
  if ndjson_newline_raw then Csv.raw_lines file else Workbook.text_lines file.

Definition ndjson_reader (file : text) : list doc * outcome unit := read_lines (ndjson_lines file).

(* list(unpacker.instance_iter(name)) *)
Definition ndjson_read (file : text) : outcome (list doc) :=
  match ndjson_reader file with
  | (ds, Done _) => Done ds
  | (_, Raise e) => Raise e
  | (_, Beyond) => Beyond
  | (_, Fuel) => Fuel
  end.

(* ------------------------------------------------------------------ domains *)
Definition code_points (s : text) : bool := forallb (fun c => c <=? 1114111) s.

(* no high surrogate code point directly followed by a low surrogate code point *)
Fixpoint no_pair (s : text) : bool :=
  match s with
  | c :: t => negb (is_high c && match t with c2 :: _ => is_low c2 | [] => false end) && no_pair t
  | [] => true
  end.

(* with ensure_ascii: code points, no adjacent surrogate pair; without: any text *)
Definition text_ok (ea : bool) (s : text) : bool := if ea then code_points s && no_pair s else true.

Fixpoint distinct (ks : list text) : bool :=
  match ks with
  | [] => true
  | k :: t => negb (existsb (text_eqb k) t) && distinct t
  end.

Definition doc_ok (ea : bool) (d : doc) : bool :=
  distinct (map fst d) && forallb (fun kv => text_ok ea (fst kv) && text_ok ea (snd kv)) d.
