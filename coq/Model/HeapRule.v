(* Syntax of EFFECT SUMMARIES (C11, first half): what harness/t1_c11heap.py writes into Gen/EffectParams.v.

   A MUTATION SITE of a library function is a place in its body where an object is changed
   (X.a = v, X[k] = v, del .., X.append(..), ...).  The pass classifies the ROOT of the mutated object:

     FRESH       an object allocated in the same activation (a literal, comprehension, constructor call; self inside __init__)
     OWN         a library object: self of a class that is not a Schema class, or the container the library keeps in one of its own
                 attributes (LocationMaker.anchors, SchemaMaker.name_cache / fixup_list, WBFileRegistry.suffix_map)
     ALIAS       a parameter, something bound to or reached from a parameter (Schema._attributes), the result of an unknown call,
                 an element of a container that may hold the caller's objects: possibly the caller's document or a loaded Schema
     CLASSLEVEL  a class object, a class attribute (DDE.filler_count, SchemaMaker.ATOMIC), a module-level variable
     SCHEMANODE  self of a Schema class outside __init__: state hung on a loaded schema node
     REFSLOT     the slot ref_to of a Schema node that sits in a maker's fixup_list (SchemaMaker.resolve): the fix-up of a
                 forward reference, the one change of a Schema node that from_json makes after constructing it

   s_depth = number of dereferences between the root and the mutated object (x[k] = v : 0;  x[k][j] = v, x.a.append(v) : 1 or more).
   s_name  = descriptor of the mutated slot, free of local names and line numbers.
   FRESH sites are not listed (see the generator); the constructor exists because the heap model (Model/Heap.v) gives it a meaning. *)
From Coq Require Import String List.

Inductive root := FRESH | OWN | ALIAS | CLASSLEVEL | SCHEMANODE | REFSLOT.

Record site := Site { s_root : root; s_depth : nat; s_name : string }.

Definition fname := string.      (* module.Class.method *)

Definition table := list (fname * list site).

(* distinct listed sites of a module: OWN, CLASSLEVEL, REFSLOT, SCHEMANODE, ALIAS *)
Record totals := Totals { t_own : nat; t_classlevel : nat; t_refslot : nat; t_schemanode : nat; t_alias : nat }.
