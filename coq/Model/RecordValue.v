(* C01b: the per-field decoder EBCDIC.value hands to LocationMaker / NDNav, indexed by the atom's $anchor:
     format = schema.attributes["cobol"]  (the USAGE and PICTURE clauses of the item)
     (v,) = estruct.unpack(format, bytes);  CONVERSION[...](v)    (Decimal or identity: leaves v unchanged, C16)
   estruct.unpack is Model/Estruct.v: [unpack] for numeric pictures, [unpack_x] for X(k).  The same instantiation
   as Judge/JC10.v dec_of, here over the field kinds of Spec/Record.v. *)
From Coq Require Import ZArith NArith List Bool.
Import ListNotations.
Require Import SR.Base.Res SR.Base.Dec SR.Spec.Layout SR.Spec.Encode SR.Spec.Record SR.Model.Layout SR.Model.Estruct
  SR.Model.LayoutValue.

Definition field_dec (kd : kinds) (a : option key) (bs : list N) : res pyval :=
  match a with
  | Some (KName i) =>
      match kd i with
      | KPacked u s m n => unpack u (mkpic s m n) bs
      | KZoned s m n => unpack display_spelling (mkpic s m n) bs
      | KBinary u s m n => unpack u (mkpic s m n) bs
      | KText k => unpack_x display_spelling k bs
      end
  | _ => Err OtherError
  end.

(* the Python value of what the program stored *)
Definition py_of (v : SR.Spec.Record.sval) : pyval :=
  match v with SDec d => VDec d | SInt z => VInt z | SStr cs => VStr cs end.

(* a path of Spec/Layout.v steps as NDNav is asked for it: name(k) / index(i) *)
Definition wstep_of_step (s : step) : wstep :=
  match s with PName k => SKey (KName k) | PIndex i => SIdx i end.
Definition wpath (p : list step) : list wstep := map wstep_of_step p.

(* value() of the navigator reached from unpacker.nav(schema, record) by the path p *)
Definition value_at (kd : kinds) (dcount : list N -> nat) (r : list N) (s : js) (p : list step) : vres (pv pyval) :=
  match vnav_of dcount r s with
  | Ok v0 =>
      match vnav_path dcount r v0 (wpath p) with
      | Ok v => vnav_value r (field_dec kd) v
      | Err e => Some (Err e)
      end
  | Err e => Some (Err e)
  end.
