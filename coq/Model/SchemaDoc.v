(* The JSON DOCUMENT cobol_parser.JSONSchemaMaker.build_json_schema emits, rendered from the structure
   tree of Model/Layout.v ([build]): every keyword, in the order the dict literals and assignments of
   the source put them (src/stingray/cobol_parser.py, build_json_schema):

     elementary item            {title, $anchor, cobol} |= json_type(node); maxLength = minLength = size
                                (the chained assignment stores maxLength first)
     OCCURS / OCCURS DEPENDING  {title, cobol, type: array, items}; then maxItemsDependsOn: {$ref: #counter}
                                or maxItems: n; a GROUP table then gets $anchor (appended last);
                                items = {type: object, properties: ...}
       elementary table           properties = {name: {$anchor, cobol} | json_type(node)}   - no title, no lengths
       group table                properties = {child name: child schema ...}
     group                      {title, $anchor, cobol, type: object, properties}
     REDEFINES union            {oneOf: [...], $anchor: REDEFINES-<name>}   (a property of the parent)
     member of a union          {title, cobol, $ref: #<name>}               (the placeholder property)

   The tree carries identifiers; the texts come from four tables (the harness keeps the id <-> name table):
   [name_of] the unique name ($anchor, property name, reference target), [title_of] the data name as written
   (FILLER for fillers), [cobol_of] the text of the cobol keyword, [kw_of] the (type, contentEncoding,
   conversion) codes json_type returned for the item (Model/JsonType.v json_type / json_type_ext; codes of
   Gen/JsonTypeParams.v).  Both generators share build_json_schema, so the extended-vocabulary document is
   the same rendering with json_type_ext's codes.

   [inner] is true for the items object of an ELEMENTARY table and for the one property inside it: that is
   where the source emits the item without title and lengths.  In the tree an elementary table is the array
   WITHOUT $anchor (build_alt: JArr None / JOdo None over elem_items).  On trees [build] does not produce
   (an atom without anchor, ...) the rendering just leaves out what it has no identifier for.

   No proofs here.  jval, the keyword names k_type ... and valid_schema are Spec/SchemaTruth.v's. *)
From Coq Require Import ZArith NArith List Bool.
Import ListNotations.
Require Import SR.Spec.Layout SR.Model.Layout SR.Spec.SchemaTruth.
Open Scope N_scope.

Definition k_cobol : list N := [99; 111; 98; 111; 108].
Definition k_conversion : list N := [99; 111; 110; 118; 101; 114; 115; 105; 111; 110].
Definition k_maxItemsDependsOn : list N := [109; 97; 120; 73; 116; 101; 109; 115; 68; 101; 112; 101; 110; 100; 115; 79; 110].
Definition s_array : list N := [97; 114; 114; 97; 121].
Definition s_object : list N := [111; 98; 106; 101; 99; 116].
Definition s_string : list N := [115; 116; 114; 105; 110; 103].
Definition s_integer : list N := [105; 110; 116; 101; 103; 101; 114].
Definition s_number : list N := [110; 117; 109; 98; 101; 114].
Definition s_decimal : list N := [100; 101; 99; 105; 109; 97; 108].
Definition s_null : list N := [110; 117; 108; 108].
Definition s_boolean : list N := [98; 111; 111; 108; 101; 97; 110].
Definition s_bool : list N := [98; 111; 111; 108].
Definition s_cp037 : list N := [99; 112; 48; 51; 55].
Definition s_packed_decimal : list N := [112; 97; 99; 107; 101; 100; 45; 100; 101; 99; 105; 109; 97; 108].
Definition s_bigendian_int : list N := [98; 105; 103; 101; 110; 100; 105; 97; 110; 45; 105; 110; 116].
Definition s_bigendian_float : list N := [98; 105; 103; 101; 110; 100; 105; 97; 110; 45; 102; 108; 111; 97; 116].
Definition s_bigendian_double : list N := [98; 105; 103; 101; 110; 100; 105; 97; 110; 45; 100; 111; 117; 98; 108; 101].
Definition s_redefines : list N := [82; 69; 68; 69; 70; 73; 78; 69; 83; 45].      (* REDEFINES- *)
Definition c_hash : N := 35.

(* the codes of Gen/JsonTypeParams.v as the texts of the document; 0 = keyword absent; a code that stands
   for no known text (99 other) is rendered as the empty text, which is no type name *)
Definition type_text (t : N) : option (list N) :=
  if t =? 0 then None
  else Some (if t =? 1 then s_string else if t =? 2 then s_integer else if t =? 3 then s_number
             else if t =? 4 then s_decimal else if t =? 5 then s_array else if t =? 6 then s_object
             else if t =? 7 then s_null else if t =? 8 then s_boolean else []).
Definition enc_text (e : N) : option (list N) :=
  if e =? 0 then None
  else Some (if e =? 1 then s_cp037 else if e =? 2 then s_packed_decimal else if e =? 3 then s_bigendian_int
             else if e =? 4 then s_bigendian_float else if e =? 5 then s_bigendian_double else []).
Definition conv_text (c : N) : option (list N) :=
  if c =? 0 then None
  else Some (if c =? 1 then s_null else if c =? 2 then s_bool else if c =? 3 then s_integer
             else if c =? 4 then s_number else if c =? 5 then s_string else if c =? 6 then s_decimal else []).

Notation member := (list N * jval)%type.

Definition opt_member (k : list N) (txt : option (list N)) : list member :=
  match txt with Some s => [(k, VText s)] | None => [] end.

Definition key_id (k : key) : id := match k with KName i => i | KRedef i => i end.

Definition is_none (a : option key) : bool := match a with None => true | Some _ => false end.

(* the entry a table was built for: a group table bears its name as $anchor, an elementary table is
   JArr None n (elem_items i sz) *)
Definition arr_id (a : option key) (its : js) : option id :=
  match a with
  | Some k => Some (key_id k)
  | None => match its with JObj None (PCons k _ PNil) => Some (key_id k) | _ => None end
  end.

Section Doc.
  Variables name_of title_of cobol_of : id -> list N.
  Variable kw_of : id -> N * N * N.

  Definition key_text (k : key) : list N :=
    match k with KName i => name_of i | KRedef i => s_redefines ++ name_of i end.
  Definition ref_text (k : key) : list N := c_hash :: key_text k.

  Definition m_title (i : id) : member := (k_title, VText (title_of i)).
  Definition m_cobol (i : id) : member := (k_cobol, VText (cobol_of i)).
  Definition m_anchor (k : key) : member := (k_anchor, VText (key_text k)).
  Definition m_type (s : list N) : member := (k_type, VText s).
  Definition m_len (k : list N) (sz : nat) : member := (k, VNum (Z.of_nat sz)).

  (* json_type(node): type, contentEncoding, conversion - in the order of the dict literals *)
  Definition kw_members (i : id) : list member :=
    match kw_of i with
    | (t, e, c) => opt_member k_type (type_text t) ++ opt_member k_contentEncoding (enc_text e) ++ opt_member k_conversion (conv_text c)
    end.

  Definition anchor_members (a : option key) : list member :=
    match a with Some k => [m_anchor k] | None => [] end.

  Definition table_head (oi : option id) : list member :=
    match oi with Some i => [m_title i; m_cobol i] | None => [] end.

  Fixpoint doc_of (inner : bool) (s : js) : jval :=
    match s with
    | JAtom a sz =>
        VMap ((match a with
               | Some k => (if inner then [] else [m_title (key_id k)]) ++ [m_anchor k; m_cobol (key_id k)] ++ kw_members (key_id k)
               | None => []
               end)
              ++ (if inner then [] else [m_len k_maxLength sz; m_len k_minLength sz]))
    | JArr a n its =>
        VMap (table_head (arr_id a its)
              ++ [m_type s_array; (k_items, doc_of (is_none a) its); m_len k_maxItems n]
              ++ anchor_members a)
    | JOdo a c its =>
        VMap (table_head (arr_id a its)
              ++ [m_type s_array; (k_items, doc_of (is_none a) its);
                  (k_maxItemsDependsOn, VMap [(k_ref, VText (c_hash :: name_of c))])]
              ++ anchor_members a)
    | JObj a ps =>
        VMap ((match a with Some k => [m_title (key_id k); m_anchor k; m_cobol (key_id k)] | None => [] end)
              ++ [m_type s_object; (k_properties, VMap (docs_props (match a with None => inner | Some _ => false end) ps))])
    | JOne a alts => VMap ((k_oneOf, VArr (docs_alts alts)) :: anchor_members a)
    | JRef k => VMap [m_title (key_id k); m_cobol (key_id k); (k_ref, VText (ref_text k))]
    end
  with docs_props (inner : bool) (ps : props) : list member :=
    match ps with PNil => [] | PCons k s r => (key_text k, doc_of inner s) :: docs_props inner r end
  with docs_alts (alts : jalts) : list jval :=
    match alts with ANil => [] | ACons s r => doc_of false s :: docs_alts r end.

  (* the document of a record: jsonschema(record) *)
  Definition doc (s : js) : jval := doc_of false s.
End Doc.

(* nesting of sub-schemas in the document of s: the fuel valid_schema needs *)
Fixpoint jdepth (s : js) : nat :=
  match s with
  | JAtom _ _ => 1
  | JArr _ _ its => S (jdepth its)
  | JOdo _ _ its => S (jdepth its)
  | JObj _ ps => S (jdepth_props ps)
  | JOne _ alts => S (jdepth_alts alts)
  | JRef _ => 1
  end
with jdepth_props (ps : props) : nat :=
  match ps with PNil => 0 | PCons _ s r => Nat.max (jdepth s) (jdepth_props r) end
with jdepth_alts (alts : jalts) : nat :=
  match alts with ANil => 0 | ACons s r => Nat.max (jdepth s) (jdepth_alts r) end.

(* levels of a record description: an elementary item is 1 *)
Fixpoint idepth (x : item) : nat :=
  match x with
  | Elem _ _ _ _ => 1
  | Group _ _ _ ks => S (idepth_kids ks)
  end
with idepth_kids (ks : items) : nat :=
  match ks with INil => 0 | ICons x xs => Nat.max (idepth x) (idepth_kids xs) end.

(* the elementary items of a record description: the entries json_type is called for *)
Fixpoint elem_ids (x : item) : list id :=
  match x with
  | Elem i _ _ _ => [i]
  | Group _ _ _ ks => elem_ids_kids ks
  end
with elem_ids_kids (ks : items) : list id :=
  match ks with INil => [] | ICons x xs => elem_ids x ++ elem_ids_kids xs end.

(* what the meta-schema asks of the type keyword json_type chose (Spec/SchemaTruth.v is_simple_type) *)
Definition type_ok (k : N * N * N) : bool :=
  match type_text (fst (fst k)) with None => true | Some s => is_simple_type (VText s) end.

(* equality of JSON documents: members in the same order, texts character by character; a value outside
   the JSON model (VOther) equals nothing *)
Fixpoint jval_eqb (a b : jval) {struct a} : bool :=
  match a, b with
  | VNull, VNull => true
  | VBool x, VBool y => Bool.eqb x y
  | VNum x, VNum y => Z.eqb x y
  | VText x, VText y => str_eqb x y
  | VArr xs, VArr ys =>
      (fix go (xs ys : list jval) {struct xs} : bool :=
         match xs, ys with
         | [], [] => true
         | x :: xs', y :: ys' => jval_eqb x y && go xs' ys'
         | _, _ => false
         end) xs ys
  | VMap xs, VMap ys =>
      (fix go (xs ys : list (list N * jval)) {struct xs} : bool :=
         match xs, ys with
         | [], [] => true
         | (k, x) :: xs', (k', y) :: ys' => str_eqb k k' && jval_eqb x y && go xs' ys'
         | _, _ => false
         end) xs ys
  | _, _ => false
  end.
