(* Model of stingray.workbook.name_cleaner (src/stingray/workbook.py).

     loop: m = re.match(PATTERN, name, re.DOTALL), PATTERN being
             group 1, optional: ^ [A-Za-z_] [-A-Za-z0-9._]* (greedy)
             group 2: any characters, greedy, then the end anchor \Z
           stop when group 2 is empty; otherwise bad_char = first character of group 2 and
           name = name.replace(bad_char, '_').replace('__', '_')
     return name

   A string is a list of code points.  The two character classes, the DOTALL flag and the
   end anchor (backslash-Z or dollar) are read from the source by the translator (Gen/NameCleanerParams.v).
   Group 1 is the longest legal prefix (greedy); group 2 is what the any-character loop then takes:
   without DOTALL [.] stops at a line feed, [$] also matches before a final line feed,
   and when nothing matches re.match returns None and [.groups()] raises AttributeError.
   The loop is modelled with explicit fuel; [clean] supplies [length s]. *)
From Coq Require Import NArith List Bool.
Import ListNotations.
Require Import SR.Base.Res SR.Gen.NameCleanerParams.
Open Scope N_scope.

Definition us : N := 95.                       (* underscore *)

Definition in_ranges (rs : list (N * N)) (c : N) : bool :=
  existsb (fun r => (fst r <=? c) && (c <=? snd r)) rs.

Definition m_start (c : N) : bool := in_ranges start_ranges c.
Definition m_cont (c : N) : bool := in_ranges cont_ranges c.

Fixpoint drop_cont (s : list N) : list N :=
  match s with
  | [] => []
  | c :: t => if m_cont c then drop_cont t else s
  end.

(* what is left after group 1 *)
Definition rest_of (s : list N) : list N :=
  match s with
  | [] => []
  | c :: t => if m_start c then drop_cont t else s
  end.

Fixpoint upto_nl (s : list N) : list N * list N :=
  match s with
  | [] => ([], [])
  | c :: t => if c =? 10 then ([], s) else let (a, b) := upto_nl t in (c :: a, b)
  end.

(* group 2, or None when the pattern does not match at all *)
Definition group2 (rest : list N) : option (list N) :=
  if dotall then Some rest
  else let (pre, post) := upto_nl rest in
       match post with
       | [] => Some rest
       | [_] => if zanchor then None else Some pre
       | _ => None
       end.

Inductive scan_result := NoBad | Bad (b : N) | NoMatch.

Definition scan (s : list N) : scan_result :=
  match group2 (rest_of s) with
  | None => NoMatch
  | Some [] => NoBad
  | Some (b :: _) => Bad b
  end.

(* str.replace(bad, '_') *)
Definition replace_char (b : N) (s : list N) : list N :=
  map (fun c => if c =? b then us else c) s.

(* str.replace('__', '_'): non-overlapping, left to right *)
Fixpoint collapse (s : list N) : list N :=
  match s with
  | [] => []
  | c :: t =>
      match t with
      | [] => [c]
      | d :: t' => if (c =? us) && (d =? us) then us :: collapse t' else c :: collapse t
      end
  end.

Definition step (b : N) (s : list N) : list N := collapse (replace_char b s).

(* result and number of loop iterations; None = out of fuel *)
Fixpoint clean_fuel (fuel : nat) (s : list N) (iters : nat) : option (res (list N) * nat) :=
  match scan s with
  | NoBad => Some (Ok s, iters)
  | NoMatch => Some (Err AttributeError, iters)
  | Bad b =>
      match fuel with
      | O => None
      | S f => clean_fuel f (step b s) (S iters)
      end
  end.

Definition clean_iters (s : list N) : option (res (list N) * nat) := clean_fuel (length s) s 0.
Definition clean (s : list N) : option (res (list N)) := option_map fst (clean_iters s).
