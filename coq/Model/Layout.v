(* Model of the path copybook entry tree -> JSON schema -> Location tree -> navigation:
     cobol_parser.JSONSchemaMaker.build_json_schema   (src/stingray/cobol_parser.py)
     schema_instance.LocationMaker.walk, Location.__init__, NDNav.name / index / raw
   The loaded Schema tree mirrors the JSON document one-to-one (that is C15), so the walk is
   modelled directly on the JSON tree.  Widths of elementary items are carried by the tree
   (that they are what calcsize reports is C04).

   build_json_schema's REDEFINES side effect on the parent's ordered properties is modelled in
   assembled form: the first member of a union met in the children loop inserts
   REDEFINES-x -> oneOf[...] and every member becomes a $ref placeholder; the alternatives list
   ends up holding every member in order.  The correspondence run compares the emitted schema
   itself (keys in order, kinds, anchors), not just the offsets.  build_raises flags the one
   shape on which the real code raises KeyError (a REDEFINES inside an OCCURS group). *)
From Coq Require Import List Arith NArith Bool.
Import ListNotations.
Require Import SR.Base.Res SR.Spec.Layout.

Inductive key := KName (i : id) | KRedef (i : id).
Definition key_eqb (a b : key) : bool :=
  match a, b with
  | KName x, KName y => N.eqb x y
  | KRedef x, KRedef y => N.eqb x y
  | _, _ => false
  end.

Inductive js :=
| JAtom (a : option key) (sz : nat)
| JArr  (a : option key) (n : nat) (its : js)
| JOdo  (a : option key) (counter : id) (its : js)
| JObj  (a : option key) (ps : props)
| JOne  (a : option key) (alts : jalts)
| JRef  (target : key)
with props := PNil | PCons (k : key) (s : js) (r : props)
with jalts := ANil | ACons (s : js) (r : jalts).

Scheme js_ind3 := Induction for js Sort Prop
with props_ind3 := Induction for props Sort Prop
with jalts_ind3 := Induction for jalts Sort Prop.
Combined Scheme js_props_alts_ind from js_ind3, props_ind3, jalts_ind3.

Definition js_anchor (s : js) : option key :=
  match s with
  | JAtom a _ | JArr a _ _ | JOdo a _ _ | JObj a _ | JOne a _ => a
  | JRef _ => None
  end.

(* ------------------------------------------------------------------ build_json_schema *)

Fixpoint redef_targets (ks : items) : list id :=
  match ks with
  | INil => []
  | ICons x xs => match item_redef x with Some t => t :: redef_targets xs | None => redef_targets xs end
  end.

(* the union an entry belongs to: a redefiner names it; the redefined item is marked by structure() *)
Definition union_of (targets : list id) (x : item) : option id :=
  match item_redef x with
  | Some t => Some t
  | None => if existsb (N.eqb (item_id x)) targets then Some (item_id x) else None
  end.

Definition elem_items (i : id) (sz : nat) : js :=
  JObj None (PCons (KName i) (JAtom (Some (KName i)) sz) PNil).

(* the children of a group, each with the union it belongs to and the schema it gets when built
   with ignore_redefines=True *)
Definition built := (id * option id * js)%type.

Fixpoint alts_of (u : id) (bs : list built) : jalts :=
  match bs with
  | [] => ANil
  | (_, Some u', s) :: r => if N.eqb u u' then ACons s (alts_of u r) else alts_of u r
  | _ :: r => alts_of u r
  end.

Fixpoint assemble (all : list built) (emitted : list id) (bs : list built) : props :=
  match bs with
  | [] => PNil
  | (i, None, s) :: r => PCons (KName i) s (assemble all emitted r)
  | (i, Some u, _) :: r =>
      if existsb (N.eqb u) emitted
      then PCons (KName i) (JRef (KName i)) (assemble all emitted r)
      else PCons (KRedef u) (JOne (Some (KRedef u)) (alts_of u all))
             (PCons (KName i) (JRef (KName i)) (assemble all (u :: emitted) r))
  end.

Fixpoint plain (bs : list built) : props :=
  match bs with
  | [] => PNil
  | (i, _, s) :: r => PCons (KName i) s (plain r)
  end.

Fixpoint build_alt (x : item) : js :=
  match x with
  | Elem i sz Once _ => JAtom (Some (KName i)) sz
  | Elem i sz (Times n) _ => JArr None n (elem_items i sz)
  | Elem i sz (Odo c) _ => JOdo None c (elem_items i sz)
  | Group i Once _ ks => let bs := kid_alts (redef_targets ks) ks in JObj (Some (KName i)) (assemble bs [] bs)
  | Group i (Times n) _ ks => JArr (Some (KName i)) n (JObj None (plain (kid_alts [] ks)))
  | Group i (Odo c) _ ks => JOdo (Some (KName i)) c (JObj None (plain (kid_alts [] ks)))
  end
with kid_alts (targets : list id) (ks : items) : list built :=
  match ks with
  | INil => []
  | ICons x xs => (item_id x, union_of targets x, build_alt x) :: kid_alts targets xs
  end.

(* jsonschema(record): a REDEFINES on the record itself is ignored (no parent) *)
Definition build (x : item) : js := build_alt x.

(* the shape on which build_json_schema raises KeyError('properties') *)
Fixpoint build_raises (x : item) : bool :=
  match x with
  | Elem _ _ _ _ => false
  | Group _ oc _ ks =>
      (match oc with Once => false | _ => match redef_targets ks with [] => false | _ => true end end)
      || kids_raise ks
  end
with kids_raise (ks : items) : bool :=
  match ks with INil => false | ICons x xs => build_raises x || kids_raise xs end.

(* ------------------------------------------------------------------ locations *)

Inductive loc :=
| LAtom (st sz : nat)
| LArr  (st sz isz cnt : nat) (it : loc) (sch : js)
| LObj  (st sz : nat) (ps : lprops)
| LOne  (st sz : nat) (alts : lalts)
| LRef  (st : nat) (target : key)
with lprops := LPNil | LPCons (k : key) (l : loc) (r : lprops)
with lalts := LANil | LACons (l : loc) (r : lalts).

Scheme loc_ind3 := Induction for loc Sort Prop
with lprops_ind3 := Induction for lprops Sort Prop
with lalts_ind3 := Induction for lalts Sort Prop.
Combined Scheme loc_lprops_lalts_ind from loc_ind3, lprops_ind3, lalts_ind3.

Definition lstart (l : loc) : nat :=
  match l with LAtom s _ | LArr s _ _ _ _ _ | LObj s _ _ | LOne s _ _ | LRef s _ => s end.
Definition lsize (l : loc) : nat :=
  match l with LAtom _ z | LArr _ z _ _ _ _ | LObj _ z _ | LOne _ z _ => z | LRef _ _ => 0 end.
Definition lend (l : loc) : nat := lstart l + lsize l.

(* LocationMaker.anchors: a dict; newest registration first, lookup takes the first match *)
Definition anchors := list (key * loc).
Definition reg (a : option key) (l : loc) (an : anchors) : anchors :=
  match a with Some k => (k, l) :: an | None => an end.
Fixpoint lookup (k : key) (an : anchors) : option loc :=
  match an with
  | [] => None
  | (k', l) :: r => if key_eqb k k' then Some l else lookup k r
  end.

Fixpoint max_size (ls : lalts) : nat :=
  match ls with LANil => 0 | LACons l r => Nat.max (lsize l) (max_size r) end.

Section Walk.
  Variable B : Type.
  Variable dcount : list B -> nat.      (* int(unpacker.value(counter schema, bytes)) *)
  Variable r : list B.                  (* the record instance *)

  Fixpoint walk (s : js) (st : nat) (an : anchors) : res (loc * anchors) :=
    match s with
    | JAtom a sz => let l := LAtom st sz in Ok (l, reg a l an)
    | JArr a n its =>
        match walk its st an with
        | Err e => Err e
        | Ok (sub, an1) =>
            let l := LArr st (lsize sub * n) (lsize sub) n sub its in Ok (l, reg a l an1)
        end
    | JOdo a c its =>
        match lookup (KName c) an with
        | None => Err KeyError
        | Some (LAtom cst csz) =>
            let n := dcount (slice r cst (cst + csz)) in
            match walk its st an with
            | Err e => Err e
            | Ok (sub, an1) =>
                let l := LArr st (lsize sub * n) (lsize sub) n sub its in Ok (l, reg a l an1)
            end
        | Some _ => Err TypeError
        end
    | JObj a ps =>
        match walk_props ps st an with
        | Err e => Err e
        | Ok (pls, off, an1) => let l := LObj st (off - st) pls in Ok (l, reg a l an1)
        end
    | JOne a alts =>
        match alts with
        | ANil => Err ValueError                     (* max() of an empty sequence *)
        | _ =>
            match walk_alts alts st an with
            | Err e => Err e
            | Ok (als, an1) => let l := LOne st (max_size als) als in Ok (l, reg a l an1)
            end
        end
    | JRef k => Ok (LRef st k, an)
    end
  with walk_props (ps : props) (off : nat) (an : anchors) : res (lprops * nat * anchors) :=
    match ps with
    | PNil => Ok (LPNil, off, an)
    | PCons k p rest =>
        match walk p off an with
        | Err e => Err e
        | Ok (pl, an1) =>
            match walk_props rest (off + lsize pl) (reg (js_anchor p) pl an1) with
            | Err e => Err e
            | Ok (rl, off', an2) => Ok (LPCons k pl rl, off', an2)
            end
        end
    end
  with walk_alts (alts : jalts) (st : nat) (an : anchors) : res (lalts * anchors) :=
    match alts with
    | ANil => Ok (LANil, an)
    | ACons s rest =>
        match walk s st an with
        | Err e => Err e
        | Ok (l, an1) =>
            match walk_alts rest st an1 with
            | Err e => Err e
            | Ok (ls, an2) => Ok (LACons l ls, an2)
            end
        end
    end.

  (* ---- NDNav ---- *)
  Record nav := mknav { n_loc : loc; n_an : anchors }.

  (* unpacker.nav(schema, instance) = LocationMaker(unpacker, schema).from_instance(instance) *)
  Definition nav_of (s : js) : res nav :=
    match walk s 0 [] with Ok (l, an) => Ok (mknav l an) | Err e => Err e end.

  Fixpoint find_prop (k : key) (ps : lprops) : option loc :=
    match ps with
    | LPNil => None
    | LPCons k' l rest => if key_eqb k k' then Some l else find_prop k rest
    end.

  Definition nav_name (v : nav) (k : key) : res nav :=
    match n_loc v with
    | LObj _ _ ps =>
        match find_prop k ps with
        | None => Err KeyError
        | Some (LRef _ t) =>
            match lookup t (n_an v) with Some l => Ok (mknav l (n_an v)) | None => Err KeyError end
        | Some l => Ok (mknav l (n_an v))
        end
    | _ => Err TypeError
    end.

  Definition nav_index (v : nav) (i : nat) : res nav :=
    match n_loc v with
    | LArr st _ isz cnt _ sch =>
        if cnt <=? i then Err IndexError
        else match walk sch (st + isz * i) [] with
             | Ok (l, an) => Ok (mknav l an)
             | Err e => Err e
             end
    | _ => Err TypeError
    end.

  Definition nav_step (v : nav) (s : step) : res nav :=
    match s with PName k => nav_name v (KName k) | PIndex i => nav_index v i end.

  Fixpoint nav_path (v : nav) (p : list step) : res nav :=
    match p with
    | [] => Ok v
    | s :: p' => match nav_step v s with Ok v' => nav_path v' p' | Err e => Err e end
    end.

  Definition nav_raw (v : nav) : list B := slice r (lstart (n_loc v)) (lend (n_loc v)).
End Walk.

Arguments walk {B}.
Arguments walk_props {B}.
Arguments walk_alts {B}.
Arguments nav_of {B}.
Arguments nav_index {B}.
Arguments nav_step {B}.
Arguments nav_path {B}.
Arguments nav_raw {B}.
