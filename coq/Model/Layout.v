(* Model of the path copybook entry tree -> JSON schema -> Location tree -> navigation:
     cobol_parser.JSONSchemaMaker.build_json_schema   (src/stingray/cobol_parser.py)
     schema_instance.LocationMaker.walk, Location.__init__, NDNav.name / index / raw
   The loaded Schema tree mirrors the JSON document one-to-one (that is C15), so the walk is
   modelled directly on the JSON tree.  Widths of elementary items are carried by the tree
   (that they are what calcsize reports is C04).

   build_json_schema's REDEFINES side effect on the parent's ordered properties is modelled in
   assembled form: the first member of a union met in the children loop inserts
   REDEFINES-x -> oneOf[...] and every member becomes a $ref placeholder; the alternatives list
   ends up holding every member in order.  The correspondence run compares the emitted schema
   itself (keys in order, kinds, anchors), not just the offsets.  build_raises flags the one
   shape on which the real code raises KeyError (a REDEFINES inside an OCCURS group).

   The RULES of the Location tree are not written out here: harness/t1_layout.py reads them in the current
   schema_instance.py on every run and states them in Gen/LayoutParams.v (vocabulary: Model/LayoutRule.v) --
   the order of the cases of walk's match statement, the start handed to every recursive walk, the (start, end)
   handed to every Location constructor and what Location.__init__ makes of them, where an item count comes from,
   how the running offset of an object advances, the aggregate over the alternatives of a oneOf, the two $anchor
   registrations, from_instance's start, the comparison by which NDNav.index refuses, the start of its re-walk,
   .referent in NDNav.name, the slice of NDNav.raw.  walk, nav_of, nav_name, nav_index and nav_raw below EVALUATE
   those statements; what they amount to under the rules as they are now is proved (by computation from the
   generated file) at the head of Proofs/LayoutP.v, and every later proof goes through those equations.  So an edit
   of the source that changes a rule changes Gen/LayoutParams.v and the proofs stop compiling, while this file and
   the judges still build and the model follows the edited source. *)
From Coq Require Import List Arith NArith Bool.
Import ListNotations.
Require Import SR.Base.Res SR.Spec.Layout SR.Model.LayoutRule SR.Gen.LayoutParams.

Inductive key := KName (i : id) | KRedef (i : id).
Definition key_eqb (a b : key) : bool :=
  match a, b with
  | KName x, KName y => N.eqb x y
  | KRedef x, KRedef y => N.eqb x y
  | _, _ => false
  end.

Inductive js :=
| JAtom (a : option key) (sz : nat)
| JArr  (a : option key) (n : nat) (its : js)
| JOdo  (a : option key) (counter : id) (its : js)
| JObj  (a : option key) (ps : props)
| JOne  (a : option key) (alts : jalts)
| JRef  (target : key)
with props := PNil | PCons (k : key) (s : js) (r : props)
with jalts := ANil | ACons (s : js) (r : jalts).

Scheme js_ind3 := Induction for js Sort Prop
with props_ind3 := Induction for props Sort Prop
with jalts_ind3 := Induction for jalts Sort Prop.
Combined Scheme js_props_alts_ind from js_ind3, props_ind3, jalts_ind3.

Definition js_anchor (s : js) : option key :=
  match s with
  | JAtom a _ | JArr a _ _ | JOdo a _ _ | JObj a _ | JOne a _ => a
  | JRef _ => None
  end.

(* ------------------------------------------------------------------ build_json_schema *)

Fixpoint redef_targets (ks : items) : list id :=
  match ks with
  | INil => []
  | ICons x xs => match item_redef x with Some t => t :: redef_targets xs | None => redef_targets xs end
  end.

(* the union an entry belongs to = clauses[redefines] of the finished node.  structure() OVERWRITES the clause of
   every item that a later sibling names in a REDEFINES with the item's own name (matches.clauses[redefines] =
   node.clauses[redefines]), whether or not the item carried a REDEFINES of its own: a redefined item heads the union
   named after itself, also when it is itself a redefiner (05 B REDEFINES A ... 05 C REDEFINES B: B and C are filed
   under REDEFINES-B, a NEW oneOf placed where B is declared, i.e. after REDEFINES-A; finding K-redefines-of-redefiner).
   Any other redefiner belongs to the union it names.  Where no redefined item is itself a redefiner (unions_ok,
   Spec/LayoutWf.v) this is: a redefiner names its union, the redefined item is marked (Proofs/LayoutP.v union_of_unf). *)
Definition union_of (targets : list id) (x : item) : option id :=
  if existsb (N.eqb (item_id x)) targets then Some (item_id x) else item_redef x.

Definition elem_items (i : id) (sz : nat) : js :=
  JObj None (PCons (KName i) (JAtom (Some (KName i)) sz) PNil).

(* the children of a group, each with the union it belongs to and the schema it gets when built
   with ignore_redefines=True *)
Definition built := (id * option id * js)%type.

Fixpoint alts_of (u : id) (bs : list built) : jalts :=
  match bs with
  | [] => ANil
  | (_, Some u', s) :: r => if N.eqb u u' then ACons s (alts_of u r) else alts_of u r
  | _ :: r => alts_of u r
  end.

Fixpoint assemble (all : list built) (emitted : list id) (bs : list built) : props :=
  match bs with
  | [] => PNil
  | (i, None, s) :: r => PCons (KName i) s (assemble all emitted r)
  | (i, Some u, _) :: r =>
      if existsb (N.eqb u) emitted
      then PCons (KName i) (JRef (KName i)) (assemble all emitted r)
      else PCons (KRedef u) (JOne (Some (KRedef u)) (alts_of u all))
             (PCons (KName i) (JRef (KName i)) (assemble all (u :: emitted) r))
  end.

Fixpoint plain (bs : list built) : props :=
  match bs with
  | [] => PNil
  | (i, _, s) :: r => PCons (KName i) s (plain r)
  end.

Fixpoint build_alt (x : item) : js :=
  match x with
  | Elem i sz Once _ => JAtom (Some (KName i)) sz
  | Elem i sz (Times n) _ => JArr None n (elem_items i sz)
  | Elem i sz (Odo c) _ => JOdo None c (elem_items i sz)
  | Group i Once _ ks => let bs := kid_alts (redef_targets ks) ks in JObj (Some (KName i)) (assemble bs [] bs)
  | Group i (Times n) _ ks => JArr (Some (KName i)) n (JObj None (plain (kid_alts [] ks)))
  | Group i (Odo c) _ ks => JOdo (Some (KName i)) c (JObj None (plain (kid_alts [] ks)))
  end
with kid_alts (targets : list id) (ks : items) : list built :=
  match ks with
  | INil => []
  | ICons x xs => (item_id x, union_of targets x, build_alt x) :: kid_alts targets xs
  end.

(* jsonschema(record): a REDEFINES on the record itself is ignored (no parent) *)
Definition build (x : item) : js := build_alt x.

(* the shape on which build_json_schema raises KeyError('properties') *)
Fixpoint build_raises (x : item) : bool :=
  match x with
  | Elem _ _ _ _ => false
  | Group _ oc _ ks =>
      (match oc with Once => false | _ => match redef_targets ks with [] => false | _ => true end end)
      || kids_raise ks
  end
with kids_raise (ks : items) : bool :=
  match ks with INil => false | ICons x xs => build_raises x || kids_raise xs end.

(* ------------------------------------------------------------------ locations *)

Inductive loc :=
| LAtom (st sz : nat)
| LArr  (st sz isz cnt : nat) (it : loc) (sch : js)
| LObj  (st sz : nat) (ps : lprops)
| LOne  (st sz : nat) (alts : lalts)
| LRef  (st : nat) (target : key)
with lprops := LPNil | LPCons (k : key) (l : loc) (r : lprops)
with lalts := LANil | LACons (l : loc) (r : lalts).

Scheme loc_ind3 := Induction for loc Sort Prop
with lprops_ind3 := Induction for lprops Sort Prop
with lalts_ind3 := Induction for lalts Sort Prop.
Combined Scheme loc_lprops_lalts_ind from loc_ind3, lprops_ind3, lalts_ind3.

Definition lstart (l : loc) : nat :=
  match l with LAtom s _ | LArr s _ _ _ _ _ | LObj s _ _ | LOne s _ _ | LRef s _ => s end.

(* ---- Location.__init__(schema, start, end), as Gen/LayoutParams.v states it:
        self.start = <init_start>
        if <init_test>: self.end = <init_end_then>; self.size = <init_size_then>
        else:           self.end = <init_end_else>; self.size = <init_size_else>
   A location of the model keeps start and size; lend below is start + size (Proofs/LayoutP.v, loc_end_consistent,
   shows that this is the end the constructor stores whenever start <= end). *)
Definition loc_start (s e : nat) : nat := eval (env_init s e) init_start.
Definition loc_size (s e : nat) : nat :=
  if eval (env_init s e) init_test =? 0 then eval (env_init s e) init_size_else else eval (env_init s e) init_size_then.
Definition loc_end (s e : nat) : nat :=
  if eval (env_init s e) init_test =? 0 then eval (env_init s e) init_end_else else eval (env_init s e) init_end_then.

(* RefToLocation(schema, self.anchors, <ref_start>, <ref_end>): the size Location.__init__ derives from that *)
Definition ref_size (st : nat) : nat := loc_size (eval (env_start st) ref_start) (eval (env_start st) ref_end).

Definition lsize (l : loc) : nat :=
  match l with LAtom _ z | LArr _ z _ _ _ _ | LObj _ z _ | LOne _ z _ => z | LRef s _ => ref_size s end.
Definition lend (l : loc) : nat := lstart l + lsize l.

(* LocationMaker.anchors: a dict; newest registration first, lookup takes the first match *)
Definition anchors := list (key * loc).
Definition reg (a : option key) (l : loc) (an : anchors) : anchors :=
  match a with Some k => (k, l) :: an | None => an end.
Fixpoint lookup (k : key) (an : anchors) : option loc :=
  match an with
  | [] => None
  | (k', l) :: r => if key_eqb k k' then Some l else lookup k r
  end.

(* after the match statement: if anchor_name := loc.schema._attributes.get('$anchor'): self.anchors[anchor_name] = loc *)
Definition post_reg (a : option key) (l : loc) (an : anchors) : anchors :=
  if walk_registers_anchor then reg a l an else an.
(* inside the ObjectSchema loop: if anchor_name := property_schema._attributes.get('$anchor'): self.anchors[...] = prop_loc *)
Definition loop_reg (a : option key) (l : loc) (an : anchors) : anchors :=
  if obj_loop_registers_anchor then reg a l an else an.

(* aggregates over the sizes of the alternatives (of a non-empty list; the empty one is LayoutRule.agg_empty) *)
Fixpoint max_size (ls : lalts) : nat :=
  match ls with LANil => 0 | LACons l r => Nat.max (lsize l) (max_size r) end.
Fixpoint sum_size (ls : lalts) : nat :=
  match ls with LANil => 0 | LACons l r => lsize l + sum_size r end.
Fixpoint min_size (ls : lalts) : nat :=
  match ls with LANil => 0 | LACons l LANil => lsize l | LACons l r => Nat.min (lsize l) (min_size r) end.
Definition first_size (ls : lalts) : nat := match ls with LANil => 0 | LACons l _ => lsize l end.
Fixpoint last_size (ls : lalts) : nat :=
  match ls with LANil => 0 | LACons l LANil => lsize l | LACons _ r => last_size r end.
Definition agg_alts (g : agg) (ls : lalts) : nat :=
  match g with
  | AggSum => sum_size ls | AggMax => max_size ls | AggMin => min_size ls
  | AggFirst => first_size ls | AggLast => last_size ls
  end.

(* the same over the property locations of an object (ObjectLocation.__init__ : self.size = sum(p.size for p in ...)) *)
Fixpoint sum_props (ps : lprops) : nat :=
  match ps with LPNil => 0 | LPCons _ l r => lsize l + sum_props r end.
Fixpoint max_props (ps : lprops) : nat :=
  match ps with LPNil => 0 | LPCons _ l r => Nat.max (lsize l) (max_props r) end.
Fixpoint min_props (ps : lprops) : nat :=
  match ps with LPNil => 0 | LPCons _ l LPNil => lsize l | LPCons _ l r => Nat.min (lsize l) (min_props r) end.
Definition first_props (ps : lprops) : nat := match ps with LPNil => 0 | LPCons _ l _ => lsize l end.
Fixpoint last_props (ps : lprops) : nat :=
  match ps with LPNil => 0 | LPCons _ l LPNil => lsize l | LPCons _ _ r => last_props r end.
Definition agg_props (g : agg) (ps : lprops) : nat :=
  match g with
  | AggSum => sum_props ps | AggMax => max_props ps | AggMin => min_props ps
  | AggFirst => first_props ps | AggLast => last_props ps
  end.
(* the size of an ObjectLocation built with (start, end) = (s, e) over the property locations ps *)
Definition obj_size (s e : nat) (ps : lprops) : nat :=
  match obj_size_override with Some g => agg_props g ps | None => loc_size s e end.

(* match schema: the first case, in the order of the source, of which the object is an instance *)
Definition dispatch (rt : sclass) : option sclass := dispatch_in walk_cases rt.

(* ArrayLocation(schema, <item_size>, <item_count>, sublocation, <start>, <end>) *)
Definition arr_loc (es ee eisz ecnt : lexpr) (st : nat) (sub : loc) (cnt : nat) (its : js) : loc :=
  let v := env_arr st (lsize sub) cnt in
  LArr (loc_start (eval v es) (eval v ee)) (loc_size (eval v es) (eval v ee)) (eval v eisz) (eval v ecnt) sub its.

Section Walk.
  Variable B : Type.
  Variable dcount : list B -> nat.      (* int(unpacker.value(counter schema, bytes)) *)
  Variable r : list B.                  (* the record instance *)

  (* the item count of an ArraySchema object whose maxItems attribute is n *)
  Definition arr_count (n : nat) : res nat :=
    match arr_count_src with
    | CsAttrMaxItems => Ok n
    | CsAnchorValue => Err AttributeError          (* an ArraySchema has no max_ref *)
    end.
  (* the item count of a DependsOnArraySchema object whose maxItemsDependsOn names c, in the case written for that class *)
  Definition odo_count (c : id) (an : anchors) : res nat :=
    match odo_count_src with
    | CsAnchorValue =>
        match lookup (KName c) an with
        | None => Err KeyError
        | Some (LAtom cst csz) => Ok (dcount (slice r cst (cst + csz)))
        | Some _ => Err TypeError
        end
    | CsAttrMaxItems => Ok 0                        (* neither maxItems nor minItems: the default of .get *)
    end.
  (* ... and when the ArraySchema case comes first in the match statement *)
  Definition odo_as_arr_count : res nat :=
    match arr_count_src with
    | CsAttrMaxItems => if arr_asserts_bound then Err AssertionError else Ok 0
    | CsAnchorValue => Err AttributeError
    end.

  Fixpoint walk (s : js) (st : nat) (an : anchors) : res (loc * anchors) :=
    match s with
    | JAtom a sz =>
        match dispatch CAtomic with
        | Some CAtomic =>
            let v := env_atom st sz in
            let l := LAtom (loc_start (eval v atom_start) (eval v atom_end)) (loc_size (eval v atom_start) (eval v atom_end)) in
            Ok (l, post_reg a l an)
        | _ => Err DesignError
        end
    | JArr a n its =>
        match dispatch CArray with
        | Some CArray =>
            match arr_count n with
            | Err e => Err e
            | Ok cnt =>
                match walk its (eval (env_arr st 0 cnt) arr_item_start) an with
                | Err e => Err e
                | Ok (sub, an1) =>
                    let l := arr_loc arr_start arr_end arr_item_size arr_item_count st sub cnt its in Ok (l, post_reg a l an1)
                end
            end
        | _ => Err DesignError
        end
    | JOdo a c its =>
        match dispatch CDependsOn with
        | Some CDependsOn =>
            match odo_count c an with
            | Err e => Err e
            | Ok cnt =>
                match walk its (eval (env_arr st 0 cnt) odo_item_start) an with
                | Err e => Err e
                | Ok (sub, an1) =>
                    let l := arr_loc odo_start odo_end odo_item_size odo_item_count st sub cnt its in Ok (l, post_reg a l an1)
                end
            end
        | Some CArray =>
            match odo_as_arr_count with
            | Err e => Err e
            | Ok cnt =>
                match walk its (eval (env_arr st 0 cnt) arr_item_start) an with
                | Err e => Err e
                | Ok (sub, an1) =>
                    let l := arr_loc arr_start arr_end arr_item_size arr_item_count st sub cnt its in Ok (l, post_reg a l an1)
                end
            end
        | _ => Err DesignError
        end
    | JObj a ps =>
        match dispatch CObject with
        | Some CObject =>
            match walk_props ps (eval (env_start st) obj_first_offset) an with
            | Err e => Err e
            | Ok (pls, off, an1) =>
                let v := env_obj st off in
                let l := LObj (loc_start (eval v obj_start) (eval v obj_end)) (obj_size (eval v obj_start) (eval v obj_end) pls) pls in
                Ok (l, post_reg a l an1)
            end
        | _ => Err DesignError
        end
    | JOne a alts =>
        match dispatch COneOf with
        | Some COneOf =>
            match alts, agg_empty one_agg with
            | ANil, Err e => Err e                   (* max() of an empty sequence *)
            | _, _ =>
                match walk_alts alts (eval (env_start st) one_alt_start) an with
                | Err e => Err e
                | Ok (als, an1) =>
                    let v := env_one st (agg_alts one_agg als) in
                    let l := LOne (loc_start (eval v one_start) (eval v one_end)) (loc_size (eval v one_start) (eval v one_end)) als in
                    Ok (l, post_reg a l an1)
                end
            end
        | _ => Err DesignError
        end
    | JRef k =>
        match dispatch CRefTo with
        | Some CRefTo =>
            let v := env_start st in Ok (LRef (loc_start (eval v ref_start) (eval v ref_end)) k, an)
        | _ => Err DesignError
        end
    end
  with walk_props (ps : props) (off : nat) (an : anchors) : res (lprops * nat * anchors) :=
    match ps with
    | PNil => Ok (LPNil, off, an)
    | PCons k p rest =>
        match walk p (eval (env_off off) obj_child_start) an with
        | Err e => Err e
        | Ok (pl, an1) =>
            match walk_props rest (eval (env_step off (lsize pl)) obj_step) (loop_reg (js_anchor p) pl an1) with
            | Err e => Err e
            | Ok (rl, off', an2) => Ok (LPCons k pl rl, off', an2)
            end
        end
    end
  with walk_alts (alts : jalts) (st : nat) (an : anchors) : res (lalts * anchors) :=
    match alts with
    | ANil => Ok (LANil, an)
    | ACons s rest =>
        match walk s st an with
        | Err e => Err e
        | Ok (l, an1) =>
            match walk_alts rest st an1 with
            | Err e => Err e
            | Ok (ls, an2) => Ok (LACons l ls, an2)
            end
        end
    end.

  (* ---- NDNav ---- *)
  Record nav := mknav { n_loc : loc; n_an : anchors }.

  (* LocationMaker(unpacker, schema).from_instance(instance, start): self.walk(self.schema, <from_instance_start>) *)
  Definition from_instance (s : js) (start : nat) : res (loc * anchors) :=
    walk s (eval (env_start start) from_instance_start) [].

  (* unpacker.nav(schema, instance) = LocationMaker(unpacker, schema).from_instance(instance)   [start: the default] *)
  Definition nav_of (s : js) : res nav :=
    match from_instance s from_instance_default with Ok (l, an) => Ok (mknav l an) | Err e => Err e end.

  Fixpoint find_prop (k : key) (ps : lprops) : option loc :=
    match ps with
    | LPNil => None
    | LPCons k' l rest => if key_eqb k k' then Some l else find_prop k rest
    end.

  (* NDNav.name: self.location.properties[name].referent  (Location.referent is self; RefToLocation.referent is
     self.anchors[name after '#']) *)
  Definition nav_name (v : nav) (k : key) : res nav :=
    match n_loc v with
    | LObj _ _ ps =>
        match find_prop k ps with
        | None => Err KeyError
        | Some (LRef st t) =>
            if name_via_referent
            then match lookup t (n_an v) with Some l => Ok (mknav l (n_an v)) | None => Err KeyError end
            else Ok (mknav (LRef st t) (n_an v))
        | Some l => Ok (mknav l (n_an v))
        end
    | _ => Err TypeError
    end.

  (* NDNav.index: if index <index_refuse_low: OP constant> or index <index_refuse> base_location.item_count: raise IndexError
     (None: no such test; an index of the model is a natural number: negative indices are Model/LayoutValue.v index_start_z);
     LocationMaker(unpacker, subschema).from_instance(self.instance, start=<index_start>)  -- a fresh maker: no anchors *)
  Definition nav_index (v : nav) (i : nat) : res nav :=
    match n_loc v with
    | LArr st _ isz cnt _ sch =>
        if refused_low index_refuse_low i || refused index_refuse i cnt then Err IndexError
        else match from_instance sch (eval (env_index st isz cnt i) index_start) with
             | Ok (l, an) => Ok (mknav l an)
             | Err e => Err e
             end
    | _ => Err TypeError
    end.

  Definition nav_step (v : nav) (s : step) : res nav :=
    match s with PName k => nav_name v (KName k) | PIndex i => nav_index v i end.

  Fixpoint nav_path (v : nav) (p : list step) : res nav :=
    match p with
    | [] => Ok v
    | s :: p' => match nav_step v s with Ok v' => nav_path v' p' | Err e => Err e end
    end.

  (* NDNav.raw: self.instance[<raw_lo> : <raw_hi>] *)
  Definition nav_raw (v : nav) : list B :=
    let ev := env_raw (lstart (n_loc v)) (lend (n_loc v)) in slice r (eval ev raw_lo) (eval ev raw_hi).
End Walk.

Arguments odo_count {B}.
Arguments walk {B}.
Arguments walk_props {B}.
Arguments walk_alts {B}.
Arguments from_instance {B}.
Arguments nav_of {B}.
Arguments nav_index {B}.
Arguments nav_step {B}.
Arguments nav_path {B}.
Arguments nav_raw {B}.
