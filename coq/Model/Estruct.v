(* Model of stingray.estruct.unpack and calcsize (src/stingray/estruct.py) and of
   Struct.struct_format/calcsize, TextUnpacker.calcsize (schema_instance.py) for the
   pictures the properties C02/C04/C18 quantify over:
     numeric   S?9(m)V9(n)      (abstract picture: signed, m integer digits, n fraction digits)
     text      X(k)
   How a picture STRING becomes (signed, m, n) is the scanner's business (C13); the
   correspondence run hands the implementation the printed clause and the judge the numbers.
   Every constant that the source spells out (usage-name tuples, sign nibbles, thresholds,
   size formulas, the digit validation) comes from Gen/EstructParams.v, regenerated from the
   source on every run. *)
From Coq Require Import ZArith NArith List Bool.
Import ListNotations.
Require Import SR.Base.Res SR.Base.Dec SR.Gen.EstructParams SR.Gen.TextCodec.
Open Scope N_scope.

Record pic := mkpic { p_signed : bool; p_int : nat; p_frac : nat }.

Inductive pyval := VDec (d : dec) | VInt (z : Z) | VStr (s : list N).

Definition mem (x : N) (l : list N) : bool := existsb (N.eqb x) l.

(* Representation.picture_size: S counts one position, V none *)
Definition picture_size (p : pic) : N :=
  (if p_signed p then 1 else 0) + N.of_nat (p_int p) + N.of_nat (p_frac p).
Definition sign_positions (p : pic) : N := if p_signed p then 1 else 0.

(* ---- nibbles and digit text ---- *)
Definition hi (b : N) : N := b / 16.        (* (b & 0xF0) >> 4, for b < 256 *)
Definition lo (b : N) : N := b mod 16.      (* b & 0x0F *)

(* str(nibble): one character for 0..9, two ("1x") for 10..15 *)
Definition str_nibble (d : N) : list N := if d <? 10 then [d] else [1; d - 10].
Definition text_of (nibbles : list N) : list N := flat_map str_nibble nibbles.

Fixpoint split_nibbles (buffer : list N) : list N :=
  match buffer with
  | [] => []
  | b :: t => hi b :: lo b :: split_nibbles t
  end.

Definition number (negative : bool) (text : list N) (frac : nat) : dec :=
  dec_mul (dec_mul (mkdec false (val text) 0) (dec_scale frac)) (dec_sign negative).

(* ---- DISPLAY, zoned decimal ---- *)
Definition unpack_zoned (p : pic) (buffer : list N) : res pyval :=
  if zoned_check_digits && existsb (fun b => 9 <? lo b) buffer then Err ValueError
  else
    match rev buffer with
    | [] => Err IndexError                      (* buffer[-1] *)
    | last :: _ =>
        let text := text_of (map lo buffer) in
        Ok (VDec (number (mem (hi last) zoned_neg) text (p_frac p)))
    end.

(* ---- DISPLAY, text: X(k) ---- *)
(* bytes.decode(<the codec the source names>) *)
Definition text_decode (b : N) : N := nth (N.to_nat b) text_table 65533.

Definition unpack_text (k : nat) (buffer : list N) : res pyval :=
  let text := map text_decode buffer in
  (* re.match(k dots, text, DOTALL): a prefix match *)
  if (k <=? length text)%nat && (text_dotall || negb (existsb (N.eqb 10) (firstn k text)))
  then Ok (VStr text) else Err ValueError.

(* ---- COMP-3 ---- *)
Definition unpack_packed_dec (p : pic) (buffer : list N) : res pyval :=
  match rev (split_nibbles buffer) with
  | [] => Err ValueError                        (* *digits, sign_half = [] *)
  | sign_half :: rdigits =>
      let digits := rev rdigits in
      if packed_check_digits && existsb (fun d => 9 <? d) digits then Err ValueError
      else
        match digits with
        | [] => Err DecimalInvalid              (* Decimal("") - cannot happen: >= 1 byte gives >= 1 digit *)
        | _ => Ok (VDec (number (mem sign_half packed_neg) (text_of digits) (p_frac p)))
        end
  end.

(* ---- binary ---- *)
Definition bin_width (t1 t2 t3 : N) (t3_incl counts_frac : bool) (p : pic) : option nat :=
  let digits := N.of_nat (p_int p) + (if counts_frac then N.of_nat (p_frac p) else 0) in
  if digits <? t1 then Some 2%nat
  else if (t1 <=? digits) && (digits <? t2) then Some 4%nat
  else if (t2 <=? digits) && (if t3_incl then digits <=? t3 else digits <? t3) then Some 8%nat
  else None.

Definition from_be (buffer : list N) : N := fold_left (fun a b => 256 * a + b) buffer 0.

Definition signed_be (w : nat) (buffer : list N) : Z :=
  let u := from_be buffer in
  let half := 2 ^ (8 * N.of_nat w - 1) in
  if u <? half then Z.of_N u else Z.of_N u - Z.of_N (2 * half).

Definition unpack_binary_int (p : pic) (buffer : list N) : res pyval :=
  match bin_width bin_t1 bin_t2 bin_t3 bin_t3_inclusive bin_counts_fraction p with
  | None => Err ValueError
  | Some w => if (length buffer =? w)%nat then Ok (VInt (signed_be w buffer)) else Err StructError
  end.

(* ---- unpack: the if/elif chain over the usage spelling ---- *)
Definition unpack (usage : N) (p : pic) (buffer : list N) : res pyval :=
  if mem usage unpack_display then unpack_zoned p buffer
  else if mem usage unpack_packed then unpack_packed_dec p buffer
  else if mem usage unpack_binary then unpack_binary_int p buffer
  else Err RuntimeError.

Definition unpack_x (usage : N) (k : nat) (buffer : list N) : res pyval :=
  if mem usage unpack_display then unpack_text k buffer else Err OtherError.

(* ---- calcsize ---- *)
Definition calcsize (usage : N) (p : pic) : res N :=
  let size := picture_size p in
  if size =? 0 then Err ValueError
  else if mem usage calc_display then Ok size
  else if mem usage calc_packed then
    Ok (if calc_packed_mode =? 0 then (size - sign_positions p) / 2 + 1 else (size + 1) / 2)
  else if mem usage calc_float4 then Ok 4
  else if mem usage calc_float8 then Ok 8
  else if mem usage calc_binary then
    Ok (if size <? calc_bin_t1 then 2 else if (calc_bin_t1 <=? size) && (size <? calc_bin_t2) then 4 else 8)
  else Err RuntimeError.

(* Struct.calcsize = struct.calcsize(struct_format): native sizes of h, i, q, f, d and ks *)
Definition struct_calcsize (usage : N) (p : pic) : res N :=
  if mem usage struct_display then Ok (picture_size p)
  else if mem usage struct_packed then Err ValueError
  else if mem usage struct_float4 then Ok 4
  else if mem usage struct_float8 then Ok 8
  else if mem usage struct_binary then
    match bin_width sbin_t1 sbin_t2 sbin_t3 sbin_t3_inclusive sbin_counts_fraction p with
    | Some w => Ok (N.of_nat w)
    | None => Err ValueError
    end
  else Err RuntimeError.

(* TextUnpacker.calcsize on a schema without maxLength: the picture size whatever the usage *)
Definition text_calcsize (p : pic) : N := picture_size p.

(* ---- C04: does the item's own decoder accept a buffer of w bytes?  A well-formed value of that
   width: zone-F zeros for DISPLAY, zeros with sign C for packed, zero bytes for binary. ---- *)
Definition canonical_buffer (usage : N) (w : nat) : list N :=
  if mem usage unpack_display then repeat 240 w
  else if mem usage unpack_packed then repeat 0 (w - 1) ++ [12]
  else repeat 0 w.
Definition decoder_accepts (usage : N) (p : pic) (w : nat) : bool :=
  match w with O => false | _ => is_ok (unpack usage p (canonical_buffer usage w)) end.

(* ---- C18: the two residual families where a buffer of the field's width holds one digit
   position more than the picture (known findings) ---- *)
Definition pad_nibble_set (p : pic) (buffer : list N) : bool :=
  Nat.even (p_int p + p_frac p) && match buffer with b :: _ => negb (hi b =? 0) | [] => false end.
Definition sign_position_set (p : pic) (buffer : list N) : bool :=
  p_signed p && match buffer with b :: _ => negb (lo b =? 0) | [] => false end.

(* ======================================================================================
   ADDITIONS: the text branch of estruct.unpack for EVERY picture the decoder-side scanner
   accepts, the whole DISPLAY branch composed with the scanner, TextUnpacker.value,
   EBCDIC.value's conversion step and Struct.value.  Nothing above this line is changed.

   estruct.unpack, USAGE DISPLAY, picture not zoned decimal:
       text = buffer.decode("CP037")
       if not re.match(representation.pattern, text, re.DOTALL): raise ValueError
       return (text,)
   Representation.pattern builds a regular expression STRING from the element list, one
   element after the other (regexp += string extends a list of characters; the join gives the
   concatenation):
       sign     S (and s) -> the six characters  [ +-]?   ; every other character of the sign
                text is copied: - D B C R are literals, and + is copied too, where it is the
                regular-expression QUANTIFIER "one or more of what precedes"
       char     $ -> \$   * -> \*   B -> \s   ; comma and slash are copied (literals)
       decimal  the full stop -> \.   ; V -> nothing
       digit    A -> \w   X -> .   Z, 9, 0 -> \d   P -> nothing ; anything else is copied
   re.match anchors the expression at the start of the text only: characters after the match
   are not looked at (surplus bytes are accepted and returned); a text too short to match is
   refused.  What CPython's parser (3.11 and later) does with the copied + :
       atom +           one or more, greedy (backtracks)
       atom + +         one or more, possessive (never gives a character back)
       [ +-]? +      the optional sign made possessive
       a + with nothing before it, or a third consecutive quantifier: re.error
       (class name "error", wire code 7, the same code as struct.error).
   The classes \d \w \s are the str (Unicode) classes.  \d is category Nd (Model/Picture.v,
   table from T1); \w and \s are spelled out below for code points under 256, which is
   everything the CP037 table yields, \s also for the rest of Unicode.
   ====================================================================================== *)
Require Import SR.Model.Picture SR.Gen.ConversionParams.
Open Scope N_scope.

Definition cp_in_ranges (c : N) (rs : list (N * N)) : bool :=
  existsb (fun r => (fst r <=? c) && (c <=? snd r)) rs.

(* \s on str, and str.isspace / Py_UNICODE_ISSPACE: the same 29 code points *)
Definition re_space (c : N) : bool :=
  cp_in_ranges c [(9, 13); (28, 32); (133, 133); (160, 160); (5760, 5760); (8192, 8202);
               (8232, 8233); (8239, 8239); (8287, 8287); (12288, 12288)].
(* \w on str = isalnum or underscore; exact below 256 (false from 256 on: not modelled) *)
Definition re_word (c : N) : bool :=
  cp_in_ranges c [(48, 57); (65, 90); (95, 95); (97, 122); (170, 170); (178, 179); (181, 181);
               (185, 186); (188, 190); (192, 214); (216, 246); (248, 255)].

(* one atom of the expression: what a single text character is tested against *)
Inductive re_atom := ALit (c : N) | ADigit | AWord | ASpace | AAny | ASign.

Definition atom_ok (a : re_atom) (c : N) : bool :=
  match a with
  | ALit x => c =? x
  | ADigit => is_nd c                              (* \d *)
  | AWord => re_word c                             (* \w *)
  | ASpace => re_space c                           (* \s *)
  | AAny => text_dotall || negb (c =? 10)          (* .  under the flag the source passes *)
  | ASign => Picture.mem c [32; 43; 45]            (* [ +-] *)
  end.

(* the lexemes of the pattern string, in order *)
Inductive rtok := RAtom (a : re_atom) | ROptSign | RPlus.

Definition sign_tok (c : N) : rtok :=
  if (c =? 83) || (c =? 115) then ROptSign else if c =? 43 then RPlus else RAtom (ALit c).
Definition char_tok (c : N) : rtok := if c =? 66 then RAtom ASpace else RAtom (ALit c).
Definition digit_toks (c : N) : list rtok :=
  if c =? 65 then [RAtom AWord] else if c =? 88 then [RAtom AAny]
  else if (c =? 90) || (c =? 57) || (c =? 48) then [RAtom ADigit]
  else if c =? 80 then [] else [RAtom (ALit c)].

Definition elt_toks (k : kind) (t : list N) : list rtok :=
  match k with
  | KSign => map sign_tok t
  | KChar => map char_tok t
  | KDecimal => if Picture.list_N_eqb t [46] then [RAtom (ALit 46)] else []
  | KDigit => flat_map digit_toks t
  end.

(* Representation.pattern; an element without text reaches the final else: DesignError *)
Fixpoint text_pattern (es : list elt) : res (list rtok) :=
  match es with
  | [] => Ok []
  | E k t :: r =>
      match t with
      | [] => Err DesignError
      | _ :: _ => match text_pattern r with Ok rest => Ok (elt_toks k t ++ rest) | Err e => Err e end
      end
  end.

(* the characters of the pattern string (for reading; the matcher works on the lexemes) *)
Definition atom_text (a : re_atom) : list N :=
  match a with
  | ALit c => if (c =? 36) || (c =? 42) || (c =? 46) then [92; c] else [c]
  | ADigit => [92; 100] | AWord => [92; 119] | ASpace => [92; 115] | AAny => [46]
  | ASign => [91; 32; 43; 45; 93]
  end.
Definition rtok_text (t : rtok) : list N :=
  match t with RAtom a => atom_text a | ROptSign => [91; 32; 43; 45; 93; 63] | RPlus => [43] end.
Definition pattern_string (ts : list rtok) : list N := flat_map rtok_text ts.

(* the parser: atoms with their quantifier *)
Inductive quant := Q1 | QOpt | QPlus | QOptPoss | QPlusPoss.

Fixpoint re_compile (ts : list rtok) : res (list (re_atom * quant)) :=
  let cons_ok (i : re_atom * quant) (r : res (list (re_atom * quant))) :=
    match r with Ok l => Ok (i :: l) | Err e => Err e end in
  match ts with
  | [] => Ok []
  | RPlus :: _ => Err StructError                          (* nothing to repeat / multiple repeat *)
  | RAtom a :: r =>
      match r with
      | RPlus :: r1 =>
          match r1 with
          | RPlus :: r2 => cons_ok (a, QPlusPoss) (re_compile r2)
          | _ => cons_ok (a, QPlus) (re_compile r1)
          end
      | _ => cons_ok (a, Q1) (re_compile r)
      end
  | ROptSign :: r =>
      match r with
      | RPlus :: r1 => cons_ok (ASign, QOptPoss) (re_compile r1)
      | _ => cons_ok (ASign, QOpt) (re_compile r)
      end
  end.

(* re.match: is there a match starting at the first character (the text may go on after it) *)
Fixpoint re_match (items : list (re_atom * quant)) (text : list N) {struct items} : bool :=
  match items with
  | [] => true
  | (a, q) :: r =>
      match q with
      | Q1 => match text with c :: t => atom_ok a c && re_match r t | [] => false end
      | QOpt => (match text with c :: t => atom_ok a c && re_match r t | [] => false end) || re_match r text
      | QOptPoss =>
          match text with
          | c :: t => if atom_ok a c then re_match r t else re_match r text
          | [] => re_match r text
          end
      | QPlus =>
          (fix plus (tx : list N) : bool :=
             match tx with c :: t => atom_ok a c && (plus t || re_match r t) | [] => false end) text
      | QPlusPoss =>
          let (run, rest) := span (atom_ok a) text in
          match run with [] => false | _ :: _ => re_match r rest end
      end
  end.

(* the text branch, given the element list of the picture *)
Definition unpack_display_text (es : list elt) (buffer : list N) : res pyval :=
  let text := map text_decode buffer in
  match text_pattern es with
  | Err e => Err e
  | Ok ts =>
      match re_compile ts with
      | Err e => Err e
      | Ok items => if re_match items text then Ok (VStr text) else Err ValueError
      end
  end.

(* the abstract picture the numeric branches use: they read len(digit_groups[1]) and [3] only *)
Definition pic_of_parsed (r : parsed) : pic :=
  mkpic (negb (Picture.list_N_eqb (g_sign (p_groups r)) []))
        (length (g_int (p_groups r))) (length (g_frac (p_groups r))).

(* estruct.unpack(clause with this usage and this PICTURE string, buffer).  None = the scanner ran
   out of fuel (never: Proofs/PictureP.v).  DISPLAY: zoned decimal when zoned_decimal says so,
   text otherwise; the other usages as before, on the digit groups of the scanned picture. *)
Definition unpack_any (usage : N) (s : list N) (buffer : list N) : option (res pyval) :=
  match dec_parse s with
  | None => None
  | Some (Err e) => Some (Err e)
  | Some (Ok r) =>
      Some (if mem usage unpack_display
            then (if p_zoned r then unpack_zoned (pic_of_parsed r) buffer
                  else unpack_display_text (p_elems r) buffer)
            else unpack usage (pic_of_parsed r) buffer)
  end.

(* ---- which characters each position of a picture admits (the statement of C02_text_any_picture) ----
   One class per lexeme:  A: \w   X: any character   9 Z 0: a decimal digit   B: white space
   $ , / * . - D B(of DB) C R: that character itself   S: space, plus or minus.
   The + symbol has no class of its own in the implementation (it is a quantifier there);
   COBOL puts a plus or a minus sign in that position, which is what [sym_class] says. *)
Definition sym_class (t : rtok) (c : N) : bool :=
  match t with
  | RAtom a => atom_ok a c
  | ROptSign => atom_ok ASign c
  | RPlus => (c =? 43) || (c =? 45)
  end.
Fixpoint fits_classes (ts : list rtok) (text : list N) : bool :=
  match ts, text with
  | [], [] => true
  | t :: ts', c :: text' => sym_class t c && fits_classes ts' text'
  | _, _ => false
  end.
Definition is_plus (t : rtok) : bool := match t with RPlus => true | _ => false end.
Definition is_optsign (t : rtok) : bool := match t with ROptSign => true | _ => false end.
Definition has_plus (ts : list rtok) : bool := existsb is_plus ts.
Definition has_optsign (ts : list rtok) : bool := existsb is_optsign ts.

(* ---- Decimal(str), the C implementation CPython ships ----
   numeric_as_ascii: white space (Py_UNICODE_ISSPACE) is stripped at both ends, every underscore
   is dropped, ASCII 1..127 is kept, other white space becomes a blank, other decimal digits
   (category Nd) become ASCII digits, anything else (also NUL) makes the whole string invalid.
   mpd_qset_string: optional sign; NaN / sNaN / Inf / Infinity in any case (NOT modelled: None);
   else digits with at most one full stop and at least one digit, optionally e or E, an optional
   sign and at least one digit.  The conversion is exact (no context rounding).
   Exponents of more than 15 digits are not modelled (None).  Everything else: InvalidOperation. *)
Fixpoint py_lstrip (s : list N) : list N :=
  match s with c :: t => if re_space c then py_lstrip t else s | [] => [] end.
Definition py_strip (s : list N) : list N := rev (py_lstrip (rev (py_lstrip s))).

Fixpoint dec_ascii (s : list N) : option (list N) :=
  match s with
  | [] => Some []
  | c :: t =>
      if c =? 95 then dec_ascii t
      else
        let keep (x : N) := match dec_ascii t with Some r => Some (x :: r) | None => None end in
        if (0 <? c) && (c <=? 127) then keep c
        else if re_space c then keep 32
        else if is_nd c then keep (48 + nd_val c)
        else None
  end.

Definition lower_ascii (c : N) : N := if (65 <=? c) && (c <=? 90) then c + 32 else c.
Fixpoint starts_ci (prefix s : list N) : bool :=
  match prefix, s with
  | [], _ => true
  | p :: ps, c :: t => (lower_ascii c =? p) && starts_ci ps t
  | _ :: _, [] => false
  end.
Definition is_special (s : list N) : bool :=
  starts_ci [110; 97; 110] s || starts_ci [115; 110; 97; 110] s || starts_ci [105; 110; 102] s.

Definition digit_values (s : list N) : list N := map (fun c => c - 48) s.

(* the exponent part after the indicator: [sign] digits+ *)
Definition exp_value (s : list N) : option (res Z) :=
  let (negative, ds) := match s with
                        | c :: t => if c =? 43 then (false, t) else if c =? 45 then (true, t) else (false, s)
                        | [] => (false, s)
                        end in
  match ds with
  | [] => Some (Err DecimalInvalid)
  | _ :: _ =>
      if negb (forallb ascii_digit ds) then Some (Err DecimalInvalid)
      else if (15 <? length ds)%nat then None
      else let v := Z.of_N (val (digit_values ds)) in Some (Ok (if negative then (- v)%Z else v))
  end.

(* scan_dpoint_exp on the text after the sign *)
Definition numeric_value (negative : bool) (s : list N) : option (res pyval) :=
  let (ip, r1) := span ascii_digit s in
  let (fp, r2) := match r1 with
                  | c :: t => if c =? 46 then span ascii_digit t else ([], r1)
                  | [] => ([], r1)
                  end in
  match ip ++ fp with
  | [] => Some (Err DecimalInvalid)
  | _ :: _ =>
      let coefficient := val (digit_values (ip ++ fp)) in
      let scale := (- Z.of_nat (length fp))%Z in
      match r2 with
      | [] => Some (Ok (VDec (mkdec negative coefficient scale)))
      | c :: t =>
          if (c =? 101) || (c =? 69) then
            match exp_value t with
            | None => None
            | Some (Err e) => Some (Err e)
            | Some (Ok x) => Some (Ok (VDec (mkdec negative coefficient (scale + x)%Z)))
            end
          else Some (Err DecimalInvalid)
      end
  end.

Definition decimal_of_text (text : list N) : option (res pyval) :=
  match dec_ascii (py_strip text) with
  | None => Some (Err DecimalInvalid)
  | Some s =>
      let (negative, body) := match s with
                              | c :: t => if c =? 43 then (false, t) else if c =? 45 then (true, t) else (false, s)
                              | [] => (false, s)
                              end in
      if is_special body then None else numeric_value negative body
  end.

(* ---- int(str): strip, optional sign, digits with single underscores between digits; other
   decimal digits count as their ASCII digit, other white space inside is an error.  ValueError.
   (The 4300-digit limit is out of reach of a field.) ---- *)
Fixpoint int_digit_run (s : list N) (acc : N) (prev_digit : bool) : option N :=
  match s with
  | [] => if prev_digit then Some acc else None
  | c :: t =>
      if c =? 95 then (if prev_digit then int_digit_run t acc false else None)
      else if is_nd c then int_digit_run t (10 * acc + nd_val c) true
      else None
  end.
Definition int_of_text (text : list N) : res pyval :=
  let s := py_strip text in
  let (negative, body) := match s with
                          | c :: t => if c =? 43 then (false, t) else if c =? 45 then (true, t) else (false, s)
                          | [] => (false, s)
                          end in
  match int_digit_run body 0 false with
  | Some v => Ok (VInt (if negative then (- Z.of_N v)%Z else Z.of_N v))
  | None => Err ValueError
  end.

(* ---- CONVERSION (table regenerated from the source: Gen/ConversionParams.v).
   Keys: 0 no "conversion" (None), 1 null, 2 bool, 3 integer, 4 number, 5 string, 6 decimal,
   any other number: a string that is not a key.  Entries: 0 identity, 1 None, 2 bool, 3 int,
   4 float, 5 str, 6 Decimal. ---- *)
Definition conversion_entry (key : Z) : option Z :=
  match find (fun kv => Z.eqb (fst kv) key) conversion_table with
  | Some kv => Some (snd kv)
  | None => None
  end.

(* the entry applied to a str.  None = not modelled: the entries whose result is None, a bool
   or a float. *)
Definition convert_text (entry : Z) (text : list N) : option (res pyval) :=
  if (entry =? 0)%Z || (entry =? 5)%Z then Some (Ok (VStr text))
  else if (entry =? 6)%Z then decimal_of_text text
  else if (entry =? 3)%Z then Some (int_of_text text)
  else None.

(* TextUnpacker.value(schema, instance): CONVERSION.get(attributes.get("conversion", type), identity)
   applied to the str slice the location hands over.  [key] = the conversion keyword when there is
   one, else the type keyword. *)
Definition text_unpacker_value (key : Z) (text : list N) : option (res pyval) :=
  convert_text (match conversion_entry key with Some e => e | None => 0%Z end) text.

(* AtomicLocation.value: the slice instance[start : end], clipped as Python slices are *)
Definition py_slice (start width : nat) (record : list N) : list N := firstn width (skipn start record).

(* EBCDIC.value: CONVERSION[attributes.get("conversion")] (KeyError for an unknown key) applied to
   what estruct.unpack returned.  Modelled: identity on everything, Decimal of a Decimal / an int /
   a str, int of an int / a str, str of a str.  The rest: None. *)
Definition convert_value (entry : Z) (v : pyval) : option (res pyval) :=
  if (entry =? 0)%Z then Some (Ok v)
  else match v with
       | VStr t => convert_text entry t
       | VDec d => if (entry =? 6)%Z then Some (Ok v) else None
       | VInt z => if (entry =? 3)%Z then Some (Ok v)
                   else if (entry =? 6)%Z then Some (Ok (VDec (mkdec (z <? 0)%Z (Z.to_N (Z.abs z)) 0))) else None
       end.
Definition ebcdic_unpacker_value (key : Z) (usage : N) (s : list N) (buffer : list N) : option (res pyval) :=
  match conversion_entry key with
  | None => Some (Err KeyError)
  | Some entry =>
      match unpack_any usage s buffer with
      | None => None
      | Some (Err e) => Some (Err e)
      | Some (Ok v) => convert_value entry v
      end
  end.

(* ---- Struct.value: struct.unpack(struct_format, bytes) in NATIVE mode (no prefix character), then
   CONVERSION[attributes.get("conversion")].  Modelled: h / i / q (2 / 4 / 8 bytes, the byte order of
   the machine: [little] = (sys.byteorder == "little"); a buffer of another length is struct.error)
   and <size>s (the bytes unchanged; a buffer of another length is struct.error).  Left out: the
   float formats f and d (None), every conversion of a bytes object except identity and Decimal
   (TypeError: Decimal does not take bytes), every conversion of an int except identity, int and
   Decimal. ---- *)
Inductive sval := SV (v : pyval) | SBytes (b : list N).

Definition struct_value (little : bool) (key : Z) (usage : N) (s : list N) (buffer : list N) : option (res sval) :=
  match dec_parse s with
  | None => None
  | Some (Err e) => Some (Err e)
  | Some (Ok r) =>
      let p := pic_of_parsed r in
      match conversion_entry key with
      | None =>
          (* struct_format is evaluated first: its errors win over the KeyError *)
          if mem usage struct_display then Some (Err KeyError)
          else if mem usage struct_packed then Some (Err ValueError)
          else if mem usage struct_float4 || mem usage struct_float8 then Some (Err KeyError)
          else if mem usage struct_binary then
            match bin_width sbin_t1 sbin_t2 sbin_t3 sbin_t3_inclusive sbin_counts_fraction p with
            | Some _ => Some (Err KeyError) | None => Some (Err ValueError) end
          else Some (Err RuntimeError)
      | Some entry =>
          if mem usage struct_display then
            if (length buffer =? p_size r)%nat then
              (if (entry =? 0)%Z then Some (Ok (SBytes buffer))
               else if (entry =? 6)%Z then Some (Err TypeError) else None)
            else Some (Err StructError)
          else if mem usage struct_packed then Some (Err ValueError)
          else if mem usage struct_float4 || mem usage struct_float8 then None
          else if mem usage struct_binary then
            match bin_width sbin_t1 sbin_t2 sbin_t3 sbin_t3_inclusive sbin_counts_fraction p with
            | None => Some (Err ValueError)
            | Some w =>
                if (length buffer =? w)%nat then
                  match convert_value entry (VInt (signed_be w (if little then rev buffer else buffer))) with
                  | None => None
                  | Some (Ok v) => Some (Ok (SV v))
                  | Some (Err e) => Some (Err e)
                  end
                else Some (Err StructError)
            end
          else Some (Err RuntimeError)
      end
  end.

(* ---- specification side of C02_textunpacker_numeric: the decimal text of a value, as a text
   field holds it: blanks, an optional sign (0 none, 1 plus, 2 minus), the integer digits, and -
   when [point] - a full stop and the fraction digits, blanks.  Digits are the values 0..9. ---- *)
Definition sign_text (sgn : N) : list N := if sgn =? 1 then [43] else if sgn =? 2 then [45] else [].
Definition digit_chars (ds : list N) : list N := map (fun d => 48 + d) ds.
Definition decimal_text (sgn : N) (ids fds : list N) (point : bool) (lp rp : nat) : list N :=
  repeat 32 lp ++ sign_text sgn ++ digit_chars ids
  ++ (if point then 46 :: digit_chars fds else []) ++ repeat 32 rp.
Definition decimal_text_ok (ids fds : list N) (point : bool) : bool :=
  forallb (fun d => d <? 10) ids && forallb (fun d => d <? 10) fds
  && negb (Nat.eqb (length ids + length fds) 0) && (point || Nat.eqb (length fds) 0).
Definition decimal_text_value (sgn : N) (ids fds : list N) : dec :=
  mkdec (sgn =? 2) (val (ids ++ fds)) (- Z.of_nat (length fds)).
