(* Model of stingray.estruct.unpack and calcsize (src/stingray/estruct.py) and of
   Struct.struct_format/calcsize, TextUnpacker.calcsize (schema_instance.py) for the
   pictures the properties C02/C04/C18 quantify over:
     numeric   S?9(m)V9(n)      (abstract picture: signed, m integer digits, n fraction digits)
     text      X(k)
   How a picture STRING becomes (signed, m, n) is the scanner's business (C13); the
   correspondence run hands the implementation the printed clause and the judge the numbers.
   Every constant that the source spells out (usage-name tuples, sign nibbles, thresholds,
   size formulas, the digit validation) comes from Gen/EstructParams.v, regenerated from the
   source on every run. *)
From Coq Require Import ZArith NArith List Bool.
Import ListNotations.
Require Import SR.Base.Res SR.Base.Dec SR.Gen.EstructParams SR.Gen.TextCodec.
Open Scope N_scope.

Record pic := mkpic { p_signed : bool; p_int : nat; p_frac : nat }.

Inductive pyval := VDec (d : dec) | VInt (z : Z) | VStr (s : list N).

Definition mem (x : N) (l : list N) : bool := existsb (N.eqb x) l.

(* Representation.picture_size: S counts one position, V none *)
Definition picture_size (p : pic) : N :=
  (if p_signed p then 1 else 0) + N.of_nat (p_int p) + N.of_nat (p_frac p).
Definition sign_positions (p : pic) : N := if p_signed p then 1 else 0.

(* ---- nibbles and digit text ---- *)
Definition hi (b : N) : N := b / 16.        (* (b & 0xF0) >> 4, for b < 256 *)
Definition lo (b : N) : N := b mod 16.      (* b & 0x0F *)

(* str(nibble): one character for 0..9, two ("1x") for 10..15 *)
Definition str_nibble (d : N) : list N := if d <? 10 then [d] else [1; d - 10].
Definition text_of (nibbles : list N) : list N := flat_map str_nibble nibbles.

Fixpoint split_nibbles (buffer : list N) : list N :=
  match buffer with
  | [] => []
  | b :: t => hi b :: lo b :: split_nibbles t
  end.

Definition number (negative : bool) (text : list N) (frac : nat) : dec :=
  dec_mul (dec_mul (mkdec false (val text) 0) (dec_scale frac)) (dec_sign negative).

(* ---- DISPLAY, zoned decimal ---- *)
Definition unpack_zoned (p : pic) (buffer : list N) : res pyval :=
  if zoned_check_digits && existsb (fun b => 9 <? lo b) buffer then Err ValueError
  else
    match rev buffer with
    | [] => Err IndexError                      (* buffer[-1] *)
    | last :: _ =>
        let text := text_of (map lo buffer) in
        Ok (VDec (number (mem (hi last) zoned_neg) text (p_frac p)))
    end.

(* ---- DISPLAY, text: X(k) ---- *)
(* bytes.decode(<the codec the source names>) *)
Definition text_decode (b : N) : N := nth (N.to_nat b) text_table 65533.

Definition unpack_text (k : nat) (buffer : list N) : res pyval :=
  let text := map text_decode buffer in
  (* re.match(k dots, text, DOTALL): a prefix match *)
  if (k <=? length text)%nat && (text_dotall || negb (existsb (N.eqb 10) (firstn k text)))
  then Ok (VStr text) else Err ValueError.

(* ---- COMP-3 ---- *)
Definition unpack_packed_dec (p : pic) (buffer : list N) : res pyval :=
  match rev (split_nibbles buffer) with
  | [] => Err ValueError                        (* *digits, sign_half = [] *)
  | sign_half :: rdigits =>
      let digits := rev rdigits in
      if packed_check_digits && existsb (fun d => 9 <? d) digits then Err ValueError
      else
        match digits with
        | [] => Err DecimalInvalid              (* Decimal("") - cannot happen: >= 1 byte gives >= 1 digit *)
        | _ => Ok (VDec (number (mem sign_half packed_neg) (text_of digits) (p_frac p)))
        end
  end.

(* ---- binary ---- *)
Definition bin_width (t1 t2 t3 : N) (t3_incl counts_frac : bool) (p : pic) : option nat :=
  let digits := N.of_nat (p_int p) + (if counts_frac then N.of_nat (p_frac p) else 0) in
  if digits <? t1 then Some 2%nat
  else if (t1 <=? digits) && (digits <? t2) then Some 4%nat
  else if (t2 <=? digits) && (if t3_incl then digits <=? t3 else digits <? t3) then Some 8%nat
  else None.

Definition from_be (buffer : list N) : N := fold_left (fun a b => 256 * a + b) buffer 0.

Definition signed_be (w : nat) (buffer : list N) : Z :=
  let u := from_be buffer in
  let half := 2 ^ (8 * N.of_nat w - 1) in
  if u <? half then Z.of_N u else Z.of_N u - Z.of_N (2 * half).

Definition unpack_binary_int (p : pic) (buffer : list N) : res pyval :=
  match bin_width bin_t1 bin_t2 bin_t3 bin_t3_inclusive bin_counts_fraction p with
  | None => Err ValueError
  | Some w => if (length buffer =? w)%nat then Ok (VInt (signed_be w buffer)) else Err StructError
  end.

(* ---- unpack: the if/elif chain over the usage spelling ---- *)
Definition unpack (usage : N) (p : pic) (buffer : list N) : res pyval :=
  if mem usage unpack_display then unpack_zoned p buffer
  else if mem usage unpack_packed then unpack_packed_dec p buffer
  else if mem usage unpack_binary then unpack_binary_int p buffer
  else Err RuntimeError.

Definition unpack_x (usage : N) (k : nat) (buffer : list N) : res pyval :=
  if mem usage unpack_display then unpack_text k buffer else Err OtherError.

(* ---- calcsize ---- *)
Definition calcsize (usage : N) (p : pic) : res N :=
  let size := picture_size p in
  if size =? 0 then Err ValueError
  else if mem usage calc_display then Ok size
  else if mem usage calc_packed then
    Ok (if calc_packed_mode =? 0 then (size - sign_positions p) / 2 + 1 else (size + 1) / 2)
  else if mem usage calc_float4 then Ok 4
  else if mem usage calc_float8 then Ok 8
  else if mem usage calc_binary then
    Ok (if size <? calc_bin_t1 then 2 else if (calc_bin_t1 <=? size) && (size <? calc_bin_t2) then 4 else 8)
  else Err RuntimeError.

(* Struct.calcsize = struct.calcsize(struct_format): native sizes of h, i, q, f, d and ks *)
Definition struct_calcsize (usage : N) (p : pic) : res N :=
  if mem usage struct_display then Ok (picture_size p)
  else if mem usage struct_packed then Err ValueError
  else if mem usage struct_float4 then Ok 4
  else if mem usage struct_float8 then Ok 8
  else if mem usage struct_binary then
    match bin_width sbin_t1 sbin_t2 sbin_t3 sbin_t3_inclusive sbin_counts_fraction p with
    | Some w => Ok (N.of_nat w)
    | None => Err ValueError
    end
  else Err RuntimeError.

(* TextUnpacker.calcsize on a schema without maxLength: the picture size whatever the usage *)
Definition text_calcsize (p : pic) : N := picture_size p.

(* ---- C04: does the item's own decoder accept a buffer of w bytes?  A well-formed value of that
   width: zone-F zeros for DISPLAY, zeros with sign C for packed, zero bytes for binary. ---- *)
Definition canonical_buffer (usage : N) (w : nat) : list N :=
  if mem usage unpack_display then repeat 240 w
  else if mem usage unpack_packed then repeat 0 (w - 1) ++ [12]
  else repeat 0 w.
Definition decoder_accepts (usage : N) (p : pic) (w : nat) : bool :=
  match w with O => false | _ => is_ok (unpack usage p (canonical_buffer usage w)) end.

(* ---- C18: the two residual families where a buffer of the field's width holds one digit
   position more than the picture (known findings) ---- *)
Definition pad_nibble_set (p : pic) (buffer : list N) : bool :=
  Nat.even (p_int p + p_frac p) && match buffer with b :: _ => negb (hi b =? 0) | [] => false end.
Definition sign_position_set (p : pic) (buffer : list N) : bool :=
  p_signed p && match buffer with b :: _ => negb (lo b =? 0) | [] => false end.
