(* Model of how WBFileRegistry.open_workbook (src/stingray/workbook.py) gets from a PATH to a suffix:

     open_workbook(self, source: Path):
         try: cls = self.suffix_map[source.suffix]
         except KeyError: raise NotImplementedError(...)
         return cls(source)

   [source] is a pathlib.Path built from ONE string, Path(p), on a POSIX system (PosixPath).  The rule
   below is the code of pathlib in CPython 3.12 (the interpreter of /venv), found by reading
   PurePath._parse_path / name / suffix and confirmed by experiment on 45 strings (file header of
   Props/C14c.v lists them); the correspondence run of harness/c14.py (kinds 5 and 6) compares it with
   pathlib on every generated path.

     PurePath._parse_path(path):
         if not path: return '', '', []
         drv, root, rel = posixpath.splitroot(path)
               path[:1] != '/'                          -> '', '',   path
               path[1:2] != '/' or path[2:3] == '/'     -> '', '/',  path[1:]
               else (exactly two leading slashes)       -> '', '//', path[2:]
         parsed = [x for x in rel.split('/') if x and x != '.']
     PurePath.name:    tail[-1] if tail else ''
     PurePath.suffix:  i = name.rfind('.'); name[i:] if 0 < i < len(name) - 1 else ''
                       (Model/Registry.v [path_suffix], the function the existing streams compare)

   So: the path is cut at every '/'; empty pieces (doubled, leading and trailing slashes) and pieces that
   are exactly '.' are dropped, '..' is kept and never resolved; the name is the last piece left (or the
   empty string); the suffix begins at the LAST dot of the name unless that dot is the first or the last
   character of the name.  Nothing is case-folded and nothing is looked up on disk.

   Strings are lists of code points.  No proofs here. *)
From Coq Require Import NArith List Bool Arith.
Import ListNotations.
Require Import SR.Base.Res SR.Model.Registry.
Open Scope N_scope.

Definition slash : N := 47.

(* str.split('/'): the pieces between the separators, in order; always at least one piece *)
Fixpoint split_slash (p : str) : list str :=
  match p with
  | [] => [[]]
  | c :: t =>
      if c =? slash then [] :: split_slash t
      else match split_slash t with
           | h :: r => (c :: h) :: r
           | [] => [[c]]
           end
  end.

(* x and x != '.' *)
Definition keep_part (x : str) : bool :=
  match x with
  | [] => false
  | [c] => negb (c =? dot)
  | _ => true
  end.

(* posixpath.splitroot: (root, rel) *)
Definition splitroot (p : str) : str * str :=
  match p with
  | c0 :: t0 =>
      if c0 =? slash then
        match t0 with
        | c1 :: t1 =>
            if c1 =? slash then
              match t1 with
              | c2 :: _ => if c2 =? slash then ([slash], t0) else ([slash; slash], t1)
              | [] => ([slash; slash], t1)
              end
            else ([slash], t0)
        | [] => ([slash], t0)
        end
      else ([], p)
  | [] => ([], p)
  end.

(* PurePath._parse_path(p)[2] = PurePath(p)._tail *)
Definition path_tail (p : str) : list str :=
  match p with
  | [] => []
  | _ => filter keep_part (split_slash (snd (splitroot p)))
  end.

(* PurePath(p).name *)
Definition path_name (p : str) : str := last (path_tail p) [].

(* PurePath(p).suffix *)
Definition suffix_of_path (p : str) : str := path_suffix (path_name p).

(* file_registry.open_workbook(Path(p)): the result and the constructor calls made *)
Definition open_path (r : registry) (p : str) : res N * list oev :=
  match reg_get r (suffix_of_path p) with
  | Some c => (Ok c, [Construct c])
  | None => (Err NotImplementedError, [])
  end.

(* a suffix of the style the source registers: a dot, then at least one character, none of them a dot or a
   slash ('.csv', '.CSV', '.gz'; not '', '.', 'csv', '.tar.gz', '.a/b') *)
Definition reg_style (s : str) : bool :=
  match s with
  | c :: e =>
      (c =? dot) && negb (match e with [] => true | _ => false end)
      && forallb (fun x => negb (x =? dot) && negb (x =? slash)) e
  | [] => false
  end.

(* what may follow the name without changing it: nothing, or a slash and then only empty and single-dot pieces
   (trailing slashes and dot components: the empty string, /, //, /., /./, //.//. ...) *)
Definition no_piece (t : str) : bool :=
  match filter keep_part (split_slash t) with [] => true | _ => false end.
Definition trailing (t : str) : bool :=
  match t with
  | [] => true
  | c :: t' => (c =? slash) && no_piece t'
  end.

(* the path has a name of its own: some piece survives (used by the correspondence run for paths that the
   runner puts below its scratch directory) *)
Definition has_name (p : str) : bool := match path_tail p with [] => false | _ => true end.
