(* Model of the conversion helpers in src/stingray/schema_instance.py, as the code is now:

     def digit_string(size, value):   return (size * "0" + str(int(value)))[-size:]
     def decimal_places(digits, value):
         digits_right = Decimal(1).scaleb(-digits)
         return Decimal(value).quantize(digits_right)
     CONVERSION = { "null": lambda x: None, "bool": bool, "integer": int, "number": float,
                    "string": str, "decimal": Decimal, None: lambda x: x }

   The numeric argument arrives as an exact decimal [dec] (sign, coefficient, exponent): that is
   what Decimal(value).as_tuple() gives for an int, a float, a numeric str or a Decimal.

   int(value)      truncation toward zero (int of an int is the int; int(float) and int(Decimal)
                   both truncate).
   str(int)        decimal digits, most significant first, a minus sign for negative values;
                   CPython refuses integers of more than 4300 digits with ValueError.
   s[-size:]       the last [size] characters; the whole string when size = 0 or size >= len(s).
   Decimal(1).scaleb(-digits)  under the default context (precision 28, Emin -999999,
                   Emax 999999, Etiny -1000026): 1E-digits; below Etiny it underflows to
                   0E-1000026; beyond 2*(Emax+prec) scaleb raises InvalidOperation.
   x.quantize(q)   only the exponent of q matters.  ROUND_HALF_EVEN.  InvalidOperation when the
                   exponent is outside [Etiny, Emax] or the result coefficient has more than
                   28 digits.  The sign of x is kept, also on a zero result.
   Strings are lists of code points.  No proofs in this file. *)
From Coq Require Import ZArith NArith List Bool.
Import ListNotations.
Require Import SR.Base.Res SR.Spec.Conversion SR.Gen.ConversionParams.
Open Scope Z_scope.

(* ---------------- digit_string ---------------- *)

(* int(value) *)
Definition int_of_dec (x : dec) : Z :=
  let c := Z.of_N (coef x) in
  let m := if 0 <=? dexp x then c * 10 ^ dexp x else c / 10 ^ (- dexp x) in
  if neg x then - m else m.

(* digits of v >= 0; 63 (question mark) marks fuel exhaustion, which [str_nonneg] never reaches *)
Fixpoint digs (fuel : nat) (v : Z) : list N :=
  match fuel with
  | O => [63%N]
  | S f => if v <? 10 then [Z.to_N (48 + v)]
           else digs f (v / 10) ++ [Z.to_N (48 + v mod 10)]
  end.

Definition str_nonneg (v : Z) : list N := digs (S (Z.to_nat (Z.log2 v))) v.

Definition max_str_digits : Z := 4300.

(* more than 4300 digits?  2^14284 < 10^4300, so small values are decided without the power *)
Definition too_long (v : Z) : bool :=
  if Z.log2 (Z.abs v) <? 14284 then false else 10 ^ max_str_digits <=? Z.abs v.

(* str(v) for an int v *)
Definition str_int (v : Z) : res (list N) :=
  if too_long v then Err ValueError
  else Ok (if v <? 0 then 45%N :: str_nonneg (- v) else str_nonneg v).

Definition zeros (n : nat) : list N := repeat 48%N n.

(* s[-size:] *)
Definition py_last (size : nat) (s : list N) : list N :=
  match size with
  | O => s
  | _ => skipn (length s - size) s
  end.

Definition digit_string (size : nat) (x : dec) : res (list N) :=
  bind (str_int (int_of_dec x)) (fun s => Ok (py_last size (zeros size ++ s))).

(* ---------------- decimal_places ---------------- *)

Definition prec : Z := 28.
Definition emax : Z := 999999.
Definition etiny : Z := -1000026.

(* c / p rounded half to even (c >= 0, p > 0) *)
Definition round_half_even (c p : Z) : Z :=
  let q := c / p in
  let r := c mod p in
  if 2 * r <? p then q
  else if p <? 2 * r then q + 1
  else if Z.even q then q else q + 1.

(* exponent of Decimal(1).scaleb(-digits) after the context has been applied *)
Definition quantum_exp (d : Z) : res Z :=
  if 2 * (emax + prec) <? d then Err DecimalInvalid
  else if emax <? - d then Err OtherError       (* negative digits: 1E+k overflows (not exercised) *)
  else Ok (Z.max (- d) etiny).

Definition quantize (x : dec) (e : Z) : res dec :=
  if (e <? etiny) || (emax <? e) then Err DecimalInvalid
  else
    let c := Z.of_N (coef x) in
    if c =? 0 then Ok (mkdec (neg x) 0 e)
    else
      let k := dexp x - e in
      if 0 <=? k then
        (* coefficient scaled up; more than 28 places up cannot fit *)
        if prec <? k then Err DecimalInvalid
        else
          let c' := c * 10 ^ k in
          if 10 ^ prec <=? c' then Err DecimalInvalid
          else Ok (mkdec (neg x) (Z.to_N c') e)
      else
        let c' := round_half_even c (10 ^ (- k)) in
        if 10 ^ prec <=? c' then Err DecimalInvalid
        else Ok (mkdec (neg x) (Z.to_N c') e).

Definition decimal_places (digits : Z) (x : dec) : res dec :=
  bind (quantum_exp digits) (quantize x).

(* which branch of quantize a case takes (reported by the judge) *)
Definition places_branch (digits : Z) (x : dec) : Z :=
  match quantum_exp digits with
  | Err _ => 27
  | Ok e =>
      if Z.of_N (coef x) =? 0 then 26
      else if 0 <=? dexp x - e then 20
      else
        let p := 10 ^ (e - dexp x) in
        let r := Z.of_N (coef x) mod p in
        if 2 * r <? p then (if r =? 0 then 20 else 21)
        else if p <? 2 * r then 22
        else if Z.even (Z.of_N (coef x) / p) then 23 else 24
  end.

(* ---------------- CONVERSION ---------------- *)

(* Type of the value a table entry returns for an argument of type [arg].
   Entry codes (Gen/ConversionParams.v): 0 lambda x: x, 1 lambda x: None, 2 bool, 3 int,
   4 float, 5 str, 6 Decimal.  Type codes: Spec/Conversion.v. *)
Definition entry_type (entry arg : Z) : Z :=
  match entry with
  | 0 => arg
  | 1 => T_none
  | 2 => T_bool
  | 3 => T_int
  | 4 => T_float
  | 5 => T_str
  | 6 => T_decimal
  | _ => -1
  end.

Fixpoint lookup (key : Z) (t : list (Z * Z)) : option Z :=
  match t with
  | [] => None
  | (k, e) :: t' => if k =? key then Some e else lookup key t'
  end.

(* type(CONVERSION[key](arg)); KeyError when the key is not in the table *)
Definition conversion_type (key arg : Z) : res Z :=
  match lookup key conversion_table with
  | Some e => Ok (entry_type e arg)
  | None => Err KeyError
  end.
