(* Model of the conversion helpers in src/stingray/schema_instance.py, as the code is now:

     def digit_string(size, value):   return (size * "0" + str(int(value)))[-size:]
     def decimal_places(digits, value):
         digits_right = Decimal(1).scaleb(-digits)
         return Decimal(value).quantize(digits_right)
     CONVERSION = { "null": lambda x: None, "bool": bool, "integer": int, "number": float,
                    "string": str, "decimal": Decimal, None: lambda x: x }

   The SHAPE of the two helper bodies and the partial() instances are read from the source on every
   run (Gen/ConversionBodyParams.v, written by harness/t1_c16.py); the text above is what the
   parameters say today:
     ds_pre = PreInt, ds_pad_char = 48, ds_pad_extra = 0, ds_pad_side = PadLeft,
     ds_slice_lo = BNegSize, ds_slice_hi = BNone,
     dp_quantum = QScaleb 1 (-1) 0, dp_via = ViaDirect, dp_rounding = RDefault, dp_ctx = CtxDefault,
     partial_table = digits_5 -> (digit_string, 5), decimal_2 -> (decimal_places, 2).
   Every function below branches on these parameters, so another value gives another function and
   the lemmas of Proofs/ConversionP.v (stated for the functions the property is about) stop
   compiling.  For the values the source has today the model is exact; for the other values it
   is exact where noted and a stated approximation elsewhere (no theorem and no verdict on the
   unchanged tree depends on those branches).

   The functions of THIS file take a finite numeric argument as an exact decimal [dec] (sign,
   coefficient, exponent): what Decimal(value).as_tuple() gives for an int, a finite float or a finite
   Decimal (and, for decimal_places only, which itself starts with Decimal(value), for a numeric str).
   A str argument of digit_string does NOT arrive this way: int() reads it by its own grammar (12.5, 1e3
   and 1.0 are ValueError).  That, and None / bool / nan / inf / Fraction arguments, is
   Model/ConversionArg.v ([digit_string_v], [decimal_places_v], [conversion_result]), which falls back
   on the functions below for the finite numeric classes.

   int(value)      truncation toward zero (int of an int is the int; int(float) and int(Decimal)
                   both truncate).
   str(int)        decimal digits, most significant first, a minus sign for negative values;
                   CPython refuses integers of more than 4300 digits with ValueError.
   s[lo:hi]        Python slice with bounds absent, size or -size ([py_slice]); s[-size:] is the
                   last [size] characters, the whole string when size = 0 or size >= len(s).
   Decimal(1).scaleb(-digits)  under the default context (precision 28, Emin -999999,
                   Emax 999999, Etiny -1000026): 1E-digits; below Etiny it underflows to
                   0E-1000026; beyond 2*(Emax+prec) scaleb raises InvalidOperation.
   x.quantize(q)   only the exponent of q matters.  ROUND_HALF_EVEN unless a rounding argument is
                   passed ([round_div] has all eight modes).  InvalidOperation when the
                   exponent is outside [Etiny, Emax], when the result coefficient has more than
                   28 digits, or when the adjusted exponent of the result (exponent + digits - 1)
                   is above Emax.  The sign of x is kept, also on a zero result.
   Strings are lists of code points.  No proofs in this file. *)
From Coq Require Import ZArith NArith List Bool.
Import ListNotations.
Require Import SR.Base.Res SR.Spec.Conversion SR.Gen.ConversionParams SR.Gen.ConversionBodyParams.
Open Scope Z_scope.

(* ---------------- digit_string ---------------- *)

(* int(value) *)
Definition int_of_dec (x : dec) : Z :=
  let c := Z.of_N (coef x) in
  let m := if 0 <=? dexp x then c * 10 ^ dexp x else c / 10 ^ (- dexp x) in
  if neg x then - m else m.

(* digits of v >= 0; 63 (question mark) marks fuel exhaustion, which [str_nonneg] never reaches *)
Fixpoint digs (fuel : nat) (v : Z) : list N :=
  match fuel with
  | O => [63%N]
  | S f => if v <? 10 then [Z.to_N (48 + v)]
           else digs f (v / 10) ++ [Z.to_N (48 + v mod 10)]
  end.

Definition str_nonneg (v : Z) : list N := digs (S (Z.to_nat (Z.log2 v))) v.

Definition max_str_digits : Z := 4300.

(* more than 4300 digits?  2^14284 < 10^4300, so small values are decided without the power *)
Definition too_long (v : Z) : bool :=
  if Z.log2 (Z.abs v) <? 14284 then false else 10 ^ max_str_digits <=? Z.abs v.

(* str(v) for an int v *)
Definition str_int (v : Z) : res (list N) :=
  if too_long v then Err ValueError
  else Ok (if v <? 0 then 45%N :: str_nonneg (- v) else str_nonneg v).

(* str(x) for a Decimal x (Decimal.__str__: plain notation when the exponent is <= 0 and the
   value is at least 1E-6 in magnitude, else scientific).  Equal to str(int) when dexp x = 0. *)
Definition str_dec (x : dec) : list N :=
  let ds := str_nonneg (Z.of_N (coef x)) in
  let len := Z.of_nat (length ds) in
  let left := dexp x + len in
  let dot := if (dexp x <=? 0) && (-6 <? left) then left else 1 in
  let body :=
    if dot <=? 0 then [48%N; 46%N] ++ repeat 48%N (Z.to_nat (- dot)) ++ ds
    else if len <=? dot then ds ++ repeat 48%N (Z.to_nat (dot - len))
    else firstn (Z.to_nat dot) ds ++ [46%N] ++ skipn (Z.to_nat dot) ds in
  let e := if left =? dot then []
           else 69%N :: (if 0 <=? left - dot then 43%N else 45%N) :: str_nonneg (Z.abs (left - dot)) in
  (if neg x then [45%N] else []) ++ body ++ e.

Definition is_integral (x : dec) : bool :=
  if 0 <=? dexp x then true else Z.of_N (coef x) mod 10 ^ (- dexp x) =? 0.

(* str(F(value)), F as the source has it.
   PreInt           exact.
   PreNone, PreStr  str(value): exact for an int or Decimal argument; a float prints differently
                    (1020.0), which the exact decimal the model receives cannot tell.
   PreFloat         str(float(value)): integral values below 10^16 print as the integer followed
                    by .0; nothing is modelled beyond that (OtherError). *)
Definition pre_text (p : pre) (x : dec) : res (list N) :=
  match p with
  | PreInt => str_int (int_of_dec x)
  | PreNone | PreStr => Ok (str_dec x)
  | PreFloat =>
      if is_integral x && (Z.abs (int_of_dec x) <? 10 ^ 16)
      then bind (str_int (int_of_dec x)) (fun s => Ok (s ++ [46%N; 48%N]))
      else Err OtherError
  end.

(* (size + extra) * c : a negative count gives the empty string *)
Definition padding (c : N) (extra : Z) (size : nat) : list N :=
  repeat c (Z.to_nat (Z.of_nat size + extra)).

Definition padded (side : pad_side) (pad s : list N) : list N :=
  match side with PadLeft => pad ++ s | PadRight => s ++ pad end.

(* position a slice bound denotes in a string of [len] characters; -0 is 0 *)
Definition py_index (size len : nat) (b : bound) (absent : nat) : nat :=
  match b with
  | BNone => absent
  | BSize => Nat.min size len
  | BNegSize => match size with O => O | _ => len - size end
  end.

(* s[lo:hi] *)
Definition py_slice (size : nat) (lo hi : bound) (s : list N) : list N :=
  let len := length s in
  skipn (py_index size len lo O) (firstn (py_index size len hi len) s).

Definition digit_string_with (p : pre) (c : N) (extra : Z) (side : pad_side) (lo hi : bound)
    (size : nat) (x : dec) : res (list N) :=
  bind (pre_text p x) (fun s => Ok (py_slice size lo hi (padded side (padding c extra size) s))).

Definition digit_string : nat -> dec -> res (list N) :=
  digit_string_with ds_pre ds_pad_char ds_pad_extra ds_pad_side ds_slice_lo ds_slice_hi.

(* ---------------- decimal_places ---------------- *)

Definition prec : Z := 28.
Definition emax : Z := 999999.
Definition etiny : Z := -1000026.

(* c / p rounded half to even (c >= 0, p > 0) *)
Definition round_half_even (c p : Z) : Z :=
  let q := c / p in
  let r := c mod p in
  if 2 * r <? p then q
  else if p <? 2 * r then q + 1
  else if Z.even q then q else q + 1.

(* c / p rounded in the given mode (c >= 0 the coefficient, p > 0, [sneg] the sign of the value);
   RDefault is the rounding of the default context *)
Definition round_div (r : rounding) (sneg : bool) (c p : Z) : Z :=
  let q := c / p in
  let m := c mod p in
  let up := if m =? 0 then q else q + 1 in
  match r with
  | RDefault | RHalfEven => round_half_even c p
  | RHalfUp => if 2 * m <? p then q else q + 1
  | RHalfDown => if p <? 2 * m then q + 1 else q
  | RDown => q
  | RUp => up
  | RCeiling => if sneg then q else up
  | RFloor => if sneg then up else q
  | R05Up => if (q mod 5 =? 0) then up else q
  end.

Definition ndigits (c : Z) : Z := Z.of_nat (length (str_nonneg c)).

(* exponent of the quantum after the context has been applied.
   QScaleb b s k   Decimal(b).scaleb(s * digits + k): InvalidOperation when the shift is outside
                   +-2 * (Emax + prec); Overflow (OtherError here; negative digits, not exercised)
                   when the adjusted exponent exceeds Emax; below Etiny the result underflows to
                   exponent Etiny.
   QLiteral e      a literal: its own exponent, whatever digits is. *)
Definition quantum_exp_with (q : quantum_rule) (d : Z) : res Z :=
  match q with
  | QScaleb b s k =>
      let e := s * d + k in
      if (e <? - (2 * (emax + prec))) || (2 * (emax + prec) <? e) then Err DecimalInvalid
      else if emax <? e + ndigits (Z.of_N b) - 1 then Err OtherError
      else Ok (Z.max e etiny)
  | QLiteral e => Ok e
  end.

Definition quantum_exp : Z -> res Z := quantum_exp_with dp_quantum.

(* the Decimal that reaches quantize.
   ViaDirect                  Decimal(value): exact.
   ViaRepr, ViaStr, ViaFloat  a detour through text or through a float.  Exact (the identity) for
                              an int, numeric str or Decimal of at most 17 significant digits
                              (ViaStr; ViaRepr of a str or Decimal raises instead, which the
                              exact decimal the model receives cannot tell).  A float becomes
                              the shortest digit string that reads back as the same float; the
                              model rounds the exact expansion half-even to 17 significant
                              digits, which is an approximation of that. *)
Definition round17 (x : dec) : dec :=
  let c := Z.of_N (coef x) in
  let k := ndigits c - 17 in
  if k <=? 0 then x else mkdec (neg x) (Z.to_N (round_half_even c (10 ^ k))) (dexp x + k).

Definition via_value (v : via) (x : dec) : dec :=
  match v with ViaDirect => x | ViaRepr | ViaStr | ViaFloat => round17 x end.

(* the last test of quantize (mpd_qquantize: adjusted exponent of the result above Emax): with the
   exponent e <= Emax and at most 28 digits it can only fail for e > Emax - 27, i.e. for a negative
   digits argument below -999972 *)
Definition within_emax (r : dec) : res dec :=
  if emax <? dexp r + ndigits (Z.of_N (coef r)) - 1 then Err DecimalInvalid else Ok r.

Definition quantize_with (r : rounding) (x : dec) (e : Z) : res dec :=
  if (e <? etiny) || (emax <? e) then Err DecimalInvalid
  else
    let c := Z.of_N (coef x) in
    if c =? 0 then Ok (mkdec (neg x) 0 e)
    else
      let k := dexp x - e in
      if 0 <=? k then
        (* coefficient scaled up; more than 28 places up cannot fit *)
        if prec <? k then Err DecimalInvalid
        else
          let c' := c * 10 ^ k in
          if 10 ^ prec <=? c' then Err DecimalInvalid
          else within_emax (mkdec (neg x) (Z.to_N c') e)
      else
        let c' := round_div r (neg x) c (10 ^ (- k)) in
        if 10 ^ prec <=? c' then Err DecimalInvalid
        else within_emax (mkdec (neg x) (Z.to_N c') e).

Definition quantize : dec -> Z -> res dec := quantize_with dp_rounding.

(* CtxExplicit: the outcome depends on a context object the model does not see; the model has no
   description of that call (OtherError, which no observation of a returned value equals). *)
Definition decimal_places_with (q : quantum_rule) (v : via) (r : rounding) (c : ctx)
    (digits : Z) (x : dec) : res dec :=
  match c with
  | CtxExplicit => Err OtherError
  | CtxDefault => bind (quantum_exp_with q digits) (quantize_with r (via_value v x))
  end.

Definition decimal_places : Z -> dec -> res dec :=
  decimal_places_with dp_quantum dp_via dp_rounding dp_ctx.

(* which branch of quantize a case takes (reported by the judge) *)
Definition places_branch (digits : Z) (x : dec) : Z :=
  match quantum_exp digits with
  | Err _ => 27
  | Ok e =>
      if Z.of_N (coef x) =? 0 then 26
      else if 0 <=? dexp x - e then 20
      else
        let p := 10 ^ (e - dexp x) in
        let r := Z.of_N (coef x) mod p in
        if 2 * r <? p then (if r =? 0 then 20 else 21)
        else if p <? 2 * r then 22
        else if Z.even (Z.of_N (coef x) / p) then 23 else 24
  end.

(* ---------------- the partial() instances ---------------- *)

Definition name_eqb (a b : list N) : bool :=
  (length a =? length b)%nat && forallb (fun p => N.eqb (fst p) (snd p)) (combine a b).

Fixpoint partial_lookup (name : list N) (t : list (list N * helper * Z)) : option (helper * Z) :=
  match t with
  | [] => None
  | (n, h, k) :: t' => if name_eqb n name then Some (h, k) else partial_lookup name t'
  end.

(* NAME(value) for a module-level NAME = partial(helper, k): a name the module does not define
   is AttributeError; the two helpers return different types, hence the sum *)
Definition call_partial (name : list N) (x : dec) : res (list N + dec) :=
  match partial_lookup name partial_table with
  | None => Err AttributeError
  | Some (HDigitString, k) =>
      if k <? 0 then Err OtherError       (* negative size: not modelled *)
      else bind (digit_string (Z.to_nat k) x) (fun s => Ok (inl s))
  | Some (HDecimalPlaces, k) => bind (decimal_places k x) (fun r => Ok (inr r))
  end.

Definition name_digits_5 : list N := [100; 105; 103; 105; 116; 115; 95; 53]%N.        (* digits_5 *)
Definition name_decimal_2 : list N := [100; 101; 99; 105; 109; 97; 108; 95; 50]%N.    (* decimal_2 *)

Definition digits_5 (x : dec) : res (list N + dec) := call_partial name_digits_5 x.
Definition decimal_2 (x : dec) : res (list N + dec) := call_partial name_decimal_2 x.

(* ---------------- CONVERSION ---------------- *)

(* Type of the value a table entry returns for an argument of type [arg].
   Entry codes (Gen/ConversionParams.v): 0 lambda x: x, 1 lambda x: None, 2 bool, 3 int,
   4 float, 5 str, 6 Decimal.  Type codes: Spec/Conversion.v. *)
Definition entry_type (entry arg : Z) : Z :=
  match entry with
  | 0 => arg
  | 1 => T_none
  | 2 => T_bool
  | 3 => T_int
  | 4 => T_float
  | 5 => T_str
  | 6 => T_decimal
  | _ => -1
  end.

Fixpoint lookup (key : Z) (t : list (Z * Z)) : option Z :=
  match t with
  | [] => None
  | (k, e) :: t' => if k =? key then Some e else lookup key t'
  end.

(* type(CONVERSION[key](arg)); KeyError when the key is not in the table *)
Definition conversion_type (key arg : Z) : res Z :=
  match lookup key conversion_table with
  | Some e => Ok (entry_type e arg)
  | None => Err KeyError
  end.
