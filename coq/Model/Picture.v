(* Model of the two PICTURE scanners and the two numeric-versus-text classifiers, as the code is now.

   DECODER side  (src/stingray/estruct.py, class Representation)
     normalize_picture(source): finditer of the alternation
         sign  + - S DB CR | char  $ , / * B | decimal  V . | repeat  [AX9Z0] ( \d+ ) | digit  [AX9Z0]+
       case-sensitive; every match appends one single-key dict; a repeat match becomes the dict
       digit = int(count) * char; [ending] = end of the last match, -1 when there is none;
       ValueError iff ending != len(source).
     parse(format): picture = normalize_picture(...), then the size loop (sign, char: len; decimal: 1 for
       the full stop, 0 otherwise; digit: len; a dict none of whose values is truthy: DesignError).
     digit_groups, zoned_decimal: the two properties, statement by statement.
   GENERATOR side  (src/stingray/cobol_parser.py)
     normalize_picture(source): the same alternation with re.IGNORECASE; matches[-1] raises IndexError
       on an empty match list; ValueError iff the last match does not end at len(source).
     JSONSchemaMaker.json_type / JSONSchemaMakerExtendedVocabulary.json_type (USAGE DISPLAY):
       picture and all(c.upper() in the set S V P 9 for c in picture)   on the RAW picture string.

   finditer: at every position the alternatives are tried in order; when none matches the scanner
   advances by one character (the character is skipped, nothing is recorded).  [scan] returns the
   list of matches AND skipped characters so that both acceptance tests and the trigger predicates of
   the known findings are plain list functions.  \d is Unicode category Nd (table from T1);
   IGNORECASE additionally lets U+017F (long s) match the literal S.
   Strings are lists of code points.  [scan] uses fuel = length of the string; [Fuel] marks exhaustion
   (proved unreachable in Proofs/PictureP.v). *)
From Coq Require Import NArith List Bool.
Import ListNotations.
Require Import SR.Base.Res SR.Gen.PictureParams.
Open Scope N_scope.

Definition mem (c : N) (l : list N) : bool := existsb (N.eqb c) l.

Definition list_N_eqb (a b : list N) : bool :=
  Nat.eqb (length a) (length b) && forallb (fun p => N.eqb (fst p) (snd p)) (combine a b).

(* ---- character classes ---- *)
Definition ascii_digit (c : N) : bool := (48 <=? c) && (c <=? 57).
Definition in_block (c lo : N) : bool := (lo <=? c) && (c <=? lo + 9).
(* \d and the characters int() accepts *)
Definition is_nd (c : N) : bool := ascii_digit c || existsb (in_block c) nd_blocks.
Definition nd_val (c : N) : N :=
  if ascii_digit c then c - 48
  else fold_right (fun lo acc => if in_block c lo then c - lo else acc) 0 nd_blocks.

(* what re.IGNORECASE does to the pattern's literals: compare upper-cased; U+017F matches S *)
Definition up (ci : bool) (c : N) : N :=
  if ci then (if (97 <=? c) && (c <=? 122) then c - 32 else if c =? 383 then 83 else c) else c.

Inductive kind := KSign | KChar | KDecimal | KDigit.
(* one dict of the element list: its single key and the value *)
Inductive elt := E (k : kind) (t : list N).
Inductive item := Tok (e : elt) | Skip (c : N) | Fuel.

Fixpoint span (p : N -> bool) (s : list N) : list N * list N :=
  match s with
  | [] => ([], [])
  | c :: t => if p c then (let (a, b) := span p t in (c :: a, b)) else ([], s)
  end.

(* int of the digit string, most significant digit first *)
Definition count_value (ds : list N) : N := fold_left (fun acc d => acc * 10 + nd_val d) ds 0.

(* what follows the picture character of a repeat:  ( digits+ )  *)
Definition repeat_tail (t : list N) : option (N * list N) :=
  match t with
  | [] => None
  | p :: t1 =>
      if p =? 40 then
        (let (ds, r) := span is_nd t1 in
         match ds with
         | [] => None
         | _ :: _ =>
             match r with
             | [] => None
             | q :: rest => if q =? 41 then Some (count_value ds, rest) else None
             end
         end)
      else None
  end.

Section Scanner.
  Variable ci : bool.
  Variables repc runc : list N.

  (* the match starting exactly at the head of s, if any: (dict, remaining text) *)
  Definition token_at (s : list N) : option (elt * list N) :=
    match s with
    | [] => None
    | c :: t =>
        let u := up ci c in
        if mem u [43; 45; 83] then Some (E KSign [c], t)
        else if (u =? 68) && (match t with d :: _ => up ci d =? 66 | [] => false end)
        then Some (E KSign (c :: firstn 1 t), skipn 1 t)
        else if (u =? 67) && (match t with d :: _ => up ci d =? 82 | [] => false end)
        then Some (E KSign (c :: firstn 1 t), skipn 1 t)
        else if mem u [36; 44; 47; 42; 66] then Some (E KChar [c], t)
        else if mem u [86; 46] then Some (E KDecimal [c], t)
        else
          match (if mem u repc then repeat_tail t else None) with
          | Some (n, rest) => Some (E KDigit (repeat c (N.to_nat n)), rest)
          | None =>
              if mem u runc
              then (let (run, rest) := span (fun d => mem (up ci d) runc) t in Some (E KDigit (c :: run), rest))
              else None
          end
    end.

  Fixpoint scan (fuel : nat) (s : list N) : list item :=
    match s with
    | [] => []
    | c :: t =>
        match fuel with
        | O => [Fuel]
        | S f =>
            match token_at s with
            | Some (e, rest) => Tok e :: scan f rest
            | None => Skip c :: scan f t
            end
        end
    end.
End Scanner.

Definition is_fuel (i : item) : bool := match i with Fuel => true | _ => false end.
Definition is_tok (i : item) : bool := match i with Tok _ => true | _ => false end.

Fixpoint elems (l : list item) : list elt :=
  match l with
  | [] => []
  | Tok e :: r => e :: elems r
  | _ :: r => elems r
  end.

(* the last thing the scanner did was a match: ending = len(source) *)
Fixpoint ends_with_tok (l : list item) : bool :=
  match l with
  | [] => false
  | i :: r => match r with [] => is_tok i | _ :: _ => ends_with_tok r end
  end.

Definition dec_items (s : list N) : list item := scan dec_ci dec_rep_class dec_run_class (length s) s.
Definition gen_items (s : list N) : list item := scan gen_ci gen_rep_class gen_run_class (length s) s.

(* estruct.Representation.normalize_picture; None = out of fuel *)
Definition dec_normalize (s : list N) : option (res (list elt)) :=
  let l := dec_items s in
  if existsb is_fuel l then None
  else Some (if ends_with_tok l then Ok (elems l) else Err ValueError).

(* cobol_parser.normalize_picture *)
Definition gen_normalize (s : list N) : option (res (list elt)) :=
  let l := gen_items s in
  if existsb is_fuel l then None
  else Some (match elems l with
             | [] => Err IndexError
             | _ :: _ => if ends_with_tok l then Ok (elems l) else Err ValueError
             end).

(* ---- estruct.Representation.parse: the size loop ---- *)
Fixpoint size_loop (es : list elt) (acc : nat) : res nat :=
  match es with
  | [] => Ok acc
  | E k t :: r =>
      match t with
      | [] => Err DesignError                   (* no truthy value in the dict *)
      | _ :: _ =>
          match k with
          | KDecimal => size_loop r (acc + (if list_N_eqb t [46%N] then 1%nat else 0%nat))%nat
          | _ => size_loop r (acc + length t)%nat
          end
      end
  end.

(* digit_groups: [sign, whole, separator, fraction] *)
Record groups := { g_sign : list N; g_int : list N; g_sep : list N; g_frac : list N }.

Fixpoint count_star (t : list N) : nat :=
  match t with [] => O | c :: r => if c =? 42 then S (count_star r) else count_star r end.

Fixpoint groups_loop (es : list elt) (frac : bool) (g : groups) : groups :=
  match es with
  | [] => g
  | E k t :: r =>
      match t with
      | [] => groups_loop r frac g             (* every .get() is falsy: nothing happens *)
      | _ :: _ =>
          match k with
          | KDecimal => groups_loop r true {| g_sign := g_sign g; g_int := g_int g; g_sep := t; g_frac := g_frac g |}
          | KDigit =>
              if frac then groups_loop r frac {| g_sign := g_sign g; g_int := g_int g; g_sep := g_sep g; g_frac := g_frac g ++ t |}
              else groups_loop r frac {| g_sign := g_sign g; g_int := g_int g ++ t; g_sep := g_sep g; g_frac := g_frac g |}
          | KChar =>
              let nines := repeat 57 (count_star t) in
              if frac then groups_loop r frac {| g_sign := g_sign g; g_int := g_int g; g_sep := g_sep g; g_frac := g_frac g ++ nines |}
              else groups_loop r frac {| g_sign := g_sign g; g_int := g_int g ++ nines; g_sep := g_sep g; g_frac := g_frac g |}
          | KSign => groups_loop r frac {| g_sign := t; g_int := g_int g; g_sep := g_sep g; g_frac := g_frac g |}
          end
      end
  end.

Definition digit_groups (es : list elt) : groups :=
  groups_loop es false {| g_sign := []; g_int := []; g_sep := []; g_frac := [] |}.

Definition has_edit (es : list elt) : bool :=
  existsb (fun e => match e with E KChar (_ :: _) => true | _ => false end) es.

Definition all9 (t : list N) : bool := forallb (fun c => c =? 57) t.

Definition zoned_decimal (es : list elt) (size : nat) : bool :=
  let g := digit_groups es in
  negb (Nat.eqb size 0)
  && (list_N_eqb (g_sign g) [] || list_N_eqb (g_sign g) [83] || list_N_eqb (g_sign g) [115])
  && all9 (g_int g)
  && (list_N_eqb (g_sep g) [86] || list_N_eqb (g_sep g) [118] || list_N_eqb (g_sep g) [])
  && all9 (g_frac g)
  && negb (has_edit es).

Record parsed := { p_elems : list elt; p_size : nat; p_groups : groups; p_zoned : bool }.

(* Representation.parse on a clause whose picture text is s, with the two properties evaluated *)
Definition dec_parse (s : list N) : option (res parsed) :=
  match dec_normalize s with
  | None => None
  | Some (Err e) => Some (Err e)
  | Some (Ok es) =>
      Some (match size_loop es 0 with
            | Err e => Err e
            | Ok n => Ok {| p_elems := es; p_size := n; p_groups := digit_groups es; p_zoned := zoned_decimal es n |}
            end)
  end.

(* ---- the generator's classification of the raw picture string ---- *)
(* characters whose str.upper() is one of S V P 9:  9 P S V p s v and U+017F *)
Definition upper_in_SVP9 (c : N) : bool := mem c [57; 80; 83; 86; 112; 115; 118; 383].

Definition gen_numeric (s : list N) : bool :=
  match s with [] => false | _ :: _ => forallb upper_in_SVP9 s end.

(* ---- trigger predicates of the known findings (BUILDING.md, Known findings) ----
   Each is a decidable predicate of the picture string alone.  The spec is used only to say
   "denotes a numeric picture" / "denotes zero positions". *)
Require Import SR.Spec.Picture.

(* 1: the scanner skipped a character other than P and still accepted the string *)
Definition bad_skip (i : item) : bool :=
  match i with Skip c => negb ((c =? 80) || (c =? 112)) | _ => false end.
Definition kb_skip (s : list N) : bool :=
  (ends_with_tok (dec_items s) && existsb bad_skip (dec_items s))
  || (ends_with_tok (gen_items s) && existsb bad_skip (gen_items s)).

(* 2: a repeat count of zero (an element with empty text) *)
Definition empty_elt (e : elt) : bool := match e with E _ [] => true | _ => false end.
Definition kb_zero (s : list N) : bool :=
  existsb empty_elt (elems (dec_items s)) || existsb empty_elt (elems (gen_items s)).

(* 3: a lower-case picture letter a b c d p r s v x z, or U+017F which IGNORECASE equates with S *)
Definition kb_lower (s : list N) : bool :=
  existsb (fun c => mem c [97; 98; 99; 100; 112; 114; 115; 118; 120; 122; 383]) s.

(* 4: repeat notation in a picture that denotes a numeric item *)
Definition kb_repnum (s : list N) : bool :=
  match sp_parse s with Some v => numeric v && mem 40 s | None => false end.

(* 5: nothing in the string matches (includes the empty string) *)
Definition kb_nomatch (s : list N) : bool :=
  match elems (gen_items s) with [] => true | _ :: _ => false end.

(* 6: a decimal digit outside ASCII *)
Definition kb_nd (s : list N) : bool := existsb (fun c => is_nd c && negb (ascii_digit c)) s.

(* 7: a picture of V and P only: it denotes no position *)
Definition kb_zeropos (s : list N) : bool :=
  match sp_parse s with Some v => Nat.eqb (positions v) 0 | None => false end.

(* 8: the picture denotes a symbol sequence with a sign other than S whose last sign is S, or with a full stop
      whose last point is V (digit_groups keeps only the last sign and the last decimal point) *)
Fixpoint last_of (p : N -> bool) (s : list N) (acc : option N) : option N :=
  match s with [] => acc | c :: t => last_of p t (if p c then Some c else acc) end.
Definition is_some_N (o : option N) (v : N) : bool := match o with Some x => x =? v | None => false end.
Definition lastonly (e : list N) : bool :=
  (existsb (fun c => mem c [43; 45; 68; 67]) e && is_some_N (last_of (fun c => mem c [43; 45; 83; 68; 67]) e None) 83)
  || (mem 46 e && is_some_N (last_of (fun c => mem c [86; 46]) e None) 86).
Definition kb_lastonly (s : list N) : bool :=
  match sp_expand s with Some e => lastonly e | None => false end.

Definition known_code (s : list N) : option N :=
  if kb_nomatch s then Some 5
  else if kb_nd s then Some 6
  else if kb_lower s then Some 3
  else if kb_skip s then Some 1
  else if kb_zero s then Some 2
  else if kb_lastonly s then Some 8
  else if kb_zeropos s then Some 7
  else if kb_repnum s then Some 4
  else None.

Definition known_bad (s : list N) : bool := match known_code s with Some _ => true | None => false end.
