(* C06 - model of reading a file of OCCURS DEPENDING ON records, as the code does it now:
     workbook.COBOL_EBCDIC_Sheet.set_schema   (lrecl from the workbook, else LocationMaker.from_schema())
     workbook.COBOL_EBCDIC_Sheet.row_iter     (for each buffer of the RECFM reader: Row(sheet, buffer) builds the
                                               navigator on the WHOLE buffer from offset 0; after the consumer has
                                               had the row: unpacker.used(row.nav.location.end))
     estruct.RECFM_N                          (Model/Recfm.v: N_init, N_step with the refill expression class and the
                                               buffer size read from the current source, Gen/RecfmParams.v)
     estruct.RECFM_V / RECFM_VB               (Model/Recfm.v: V_record_iter, VB_record_iter; used() only stores a number)
   The schema walk (DependsOnArraySchema: counter fetched through the anchors) and NDNav.index are those of
   Model/Layout.v; nothing of them is re-modelled here.  from_schema reads its rules (default start, the start handed
   to walk, the instance check of the DependsOnArraySchema case) from Gen/LayoutParams.v like Model/Layout.v does. *)
From Coq Require Import ZArith NArith List Bool Arith.
Import ListNotations.
Require Import SR.Base.Res SR.Gen.RecfmParams SR.Model.Recfm SR.Spec.Layout SR.Model.LayoutRule SR.Gen.LayoutParams SR.Model.Layout.

(* does the schema hold a DependsOnArraySchema / an empty oneOf anywhere (every node is walked) *)
Fixpoint js_has_odo (s : js) : bool :=
  match s with
  | JAtom _ _ => false
  | JArr _ _ its => js_has_odo its
  | JOdo _ _ _ => true
  | JObj _ ps => props_have_odo ps
  | JOne _ alts => alts_have_odo alts
  | JRef _ => false
  end
with props_have_odo (ps : props) : bool :=
  match ps with PNil => false | PCons _ s r => js_has_odo s || props_have_odo r end
with alts_have_odo (alts : jalts) : bool :=
  match alts with ANil => false | ACons s r => js_has_odo s || alts_have_odo r end.

Section Rows.
Context {A : Type}.
Variable dcount : list A -> nat.      (* int(unpacker.value(counter schema, bytes)) *)

(* LocationMaker(unpacker, schema).from_schema(): the walk without an instance.  The DependsOnArraySchema case
   starts with: if not hasattr(self, 'instance'): raise ValueError.  The only other failure of a walk is max() of an
   empty oneOf, also ValueError, so: ValueError as soon as the schema holds an ODO array, else the plain walk
   (which never looks at the record). *)
(* Gen/LayoutParams.v: odo_requires_instance says that check is there (without it the case goes on to self.instance,
   an AttributeError); from_schema(self, start=<from_schema_default>) walks from <from_schema_start> *)
Definition from_schema (s : js) : res loc :=
  if js_has_odo s then Err (if odo_requires_instance then ValueError else AttributeError)
  else match SR.Model.Layout.walk dcount [] s (eval (env_start from_schema_default) from_schema_start) [] with
       | Ok (l, _) => Ok l
       | Err e => Err e
       end.

(* COBOL_EBCDIC_Sheet.set_schema:
     if wb.lrecl: self.lrecl = wb.lrecl                               (None and 0 are both false)
     else: try: self.lrecl = LocationMaker(...).from_schema().end
           except <catches>: self.lrecl = <caught_lrecl>              (None is modelled as 0: every reader only tests it)
   [catches] and [caught_lrecl] are read from the source (Gen/LayoutParams.v: since fix 64e9f81 ValueError and None;
   before it there was no try, catches = []).  [set_schema_with] takes them as arguments so that a theorem can also
   speak about the source before the fix. *)
Definition set_schema_with (catches : list exn) (caught_lrecl : nat) (lrecl : option nat) (s : js) : res nat :=
  match lrecl with
  | Some (S n) => Ok (S n)
  | _ => match from_schema s with
         | Ok l => Ok (lend l)
         | Err e => if caught catches e then Ok caught_lrecl else Err e
         end
  end.
Definition set_schema (lrecl : option nat) (s : js) : res nat :=
  set_schema_with set_schema_catches set_schema_caught_lrecl lrecl s.

(* what the consumer of rows() is handed: the buffer (row.instance) and the navigator built on it *)
Record row := mkrow { row_buf : list A; row_nav : nav }.

(* row_iter over RECFM_N:
     for instance in reader.record_iter():         while len(self.buffer) != 0: self._used = 0; yield self.buffer
         self.row = Row(self, instance)            nav = LocationMaker(...).from_instance(instance)   [start 0]
         yield self.row
         unpacker.used(self.row.nav.location.end)  self._used = end
                                                   if self._used == 0: raise RuntimeError
                                                   remaining = buffer[used:]; buffer = remaining + read(...)
   An exception while the Row is built leaves through row_iter before anything is yielded for that buffer.
   [fuel]: every pass removes at least one element from buffer + file, so S (length file) passes suffice. *)
Fixpoint row_loop (fuel : nat) (mode kind : N) (B : nat) (schema : js) (s : st A) : list row * fin * st A :=
  match fuel with
  | O => ([], Hang, s)
  | S f =>
      match buf s with
      | [] => ([], Done, s)
      | _ =>
          match nav_of dcount (buf s) schema with
          | Err e => ([], Raised e, s)
          | Ok v =>
              let rw := mkrow (buf s) v in
              let used := lend (n_loc v) in
              if (used =? 0)%nat then ([rw], Raised RuntimeError, s)
              else match N_step mode kind B s used with
                   | Err e => ([rw], Raised e, s)
                   | Ok s' => let '(l, fi, s'') := row_loop f mode kind B schema s' in (rw :: l, fi, s'')
                   end
          end
      end
  end.

(* COBOL_EBCDIC_File(path, recfm_class=RECFM_N, lrecl=...).sheet('').set_schema(schema).rows() *)
Definition rows_N (kind : N) (lrecl : option nat) (schema : js) (file : list A) : res (list row * fin * st A) :=
  match set_schema lrecl schema with
  | Err e => Err e
  | Ok _ =>                                       (* RECFM_N.__init__ ignores lrecl *)
      let B := N.to_nat buffer_size in
      Ok (row_loop (S (length file)) refill_mode kind B schema (N_init B file))
  end.

(* row_iter over a reader that delivers whole records (V, VB): a Row per record; used() has no effect.
   The first record whose Row cannot be built ends the iteration with that exception. *)
Fixpoint rows_of (schema : js) (recs : list (list A)) : list row * option exn :=
  match recs with
  | [] => ([], None)
  | r :: rest =>
      match nav_of dcount r schema with
      | Err e => ([], Some e)
      | Ok v => let '(l, x) := rows_of schema rest in (mkrow r v :: l, x)
      end
  end.

Definition rows_from (schema : js) (o : list (list A) * fin) : list row * fin :=
  let '(recs, f) := o in
  match rows_of schema recs with
  | (l, None) => (l, f)
  | (l, Some e) => (l, Raised e)
  end.

End Rows.

Arguments row A : clear implicits.

(* the same through RECFM_V and RECFM_VB (bytes only: the descriptor words are numbers) *)
Definition rows_V (dcount : list N -> nat) (kind : N) (lrecl : option nat) (schema : js) (file : list N)
  : res (list (row N) * fin) :=
  match set_schema dcount lrecl schema with
  | Err e => Err e
  | Ok _ => let '(recs, f, _) := V_record_iter kind file in Ok (rows_from dcount schema (recs, f))
  end.

Definition rows_VB (dcount : list N -> nat) (kind : N) (lrecl : option nat) (schema : js) (file : list N)
  : res (list (row N) * fin) :=
  match set_schema dcount lrecl schema with
  | Err e => Err e
  | Ok _ => let '(recs, f, _) := VB_record_iter kind file in Ok (rows_from dcount schema (recs, f))
  end.

(* the same through RECFM_F / RECFM_FB: fixed-length records, each cut at the lrecl the sheet holds (the workbook's, else the one
   computed from the layout); a variable-length record is stored padded to that length and is laid out by its own counters.
   With no lrecl at all (none given, none computable: an OCCURS DEPENDING ON layout) RECFM_F.record_iter raises TypeError
   when the first row is asked for (Model/Recfm.v F_record_iter, lrecl 0). *)
Definition rows_F (dcount : list N -> nat) (kind : N) (lrecl : option nat) (schema : js) (file : list N)
  : res (list (row N) * fin) :=
  match set_schema dcount lrecl schema with
  | Err e => Err e
  | Ok l => let '(recs, f, _) := F_record_iter kind (Z.of_nat l) file in Ok (rows_from dcount schema (recs, f))
  end.
