(* str.encode('utf-8') / the text layer of a file opened with encoding utf-8, on code points that are not
   surrogates: the bytes of every code point (1 to 4).  Used to compare the BYTES csv.writer and json.dumps
   really wrote with the model writers' characters, and to state the text models over what a file holds. *)
From Coq Require Import NArith List Bool.
Import ListNotations.
Open Scope N_scope.

Definition utf8_char (c : N) : list N :=
  if c <? 128 then [c]
  else if c <? 2048 then [192 + c / 64; 128 + c mod 64]
  else if c <? 65536 then [224 + c / 4096; 128 + (c / 64) mod 64; 128 + c mod 64]
  else [240 + c / 262144; 128 + (c / 4096) mod 64; 128 + (c / 64) mod 64; 128 + c mod 64].

Definition utf8 (s : list N) : list N := flat_map utf8_char s.

(* bytes.decode('utf-8') on well-formed input; None on a malformed sequence (strict errors) *)
Definition cont (b : N) : option N := if (128 <=? b) && (b <? 192) then Some (b - 128) else None.

Fixpoint utf8_decode (fuel : nat) (bs : list N) : option (list N) :=
  match fuel with
  | O => match bs with [] => Some [] | _ => None end
  | S fuel' =>
      match bs with
      | [] => Some []
      | b :: t =>
          if b <? 128 then option_map (cons b) (utf8_decode fuel' t)
          else if b <? 192 then None
          else if b <? 224 then
            match t with
            | b1 :: t1 =>
                match cont b1 with
                | Some x1 => let c := (b - 192) * 64 + x1 in
                             if c <? 128 then None else option_map (cons c) (utf8_decode fuel' t1)
                | None => None
                end
            | _ => None
            end
          else if b <? 240 then
            match t with
            | b1 :: b2 :: t2 =>
                match cont b1, cont b2 with
                | Some x1, Some x2 =>
                    let c := ((b - 224) * 64 + x1) * 64 + x2 in
                    if (c <? 2048) || ((55296 <=? c) && (c <=? 57343)) then None
                    else option_map (cons c) (utf8_decode fuel' t2)
                | _, _ => None
                end
            | _ => None
            end
          else if b <? 248 then
            match t with
            | b1 :: b2 :: b3 :: t3 =>
                match cont b1, cont b2, cont b3 with
                | Some x1, Some x2, Some x3 =>
                    let c := (((b - 240) * 64 + x1) * 64 + x2) * 64 + x3 in
                    if (c <? 65536) || (1114111 <? c) then None
                    else option_map (cons c) (utf8_decode fuel' t3)
                | _, _, _ => None
                end
            | _ => None
            end
          else None
      end
  end.

Definition scalar (c : N) : bool := (c <? 55296) || ((57343 <? c) && (c <=? 1114111)).
