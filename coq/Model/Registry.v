(* Model of stingray.workbook.WBFileRegistry (src/stingray/workbook.py):

     __init__      : self.suffix_map = {}
     file_suffix   : decorator factory; applied to a class it runs
                       for name in name_list: self.suffix_map[name] = cls
                     (the store statement is read from the source: Gen/RegistryParams.later_wins)
     open_workbook : try: cls = self.suffix_map[source.suffix]
                     except KeyError: raise NotImplementedError(...)
                     return cls(source)

   A suffix is a string (list of code points); a class is an identifier (N).  The dict is an
   association list in insertion order with Python's assignment rule (an existing key keeps its
   position and gets the new value, a new key is appended).  [open_workbook] returns the result
   together with the trace of constructor calls it made: the constructor is the only place where
   anything is opened, and it is not reached on the KeyError path.

   [path_suffix] is PurePath.suffix of Python 3.12 applied to the final path component
   (a name without a separator):  i = name.rfind(dot); name[i:] if 0 < i < len(name) - 1 else the
   empty string.  It is compared with what pathlib returned in every correspondence case; the
   theorems are stated over the suffix string.

   The registrations of the global registry are read from the decorators in the source
   (Gen/RegistryParams.v). *)
From Coq Require Import NArith List Bool Arith.
Import ListNotations.
Require Import SR.Base.Res SR.Gen.RegistryParams SR.Spec.Lifecycle.
Open Scope N_scope.

Notation str := (list N) (only parsing).

Fixpoint str_eqb (a b : str) : bool :=
  match a, b with
  | [], [] => true
  | x :: a', y :: b' => (x =? y) && str_eqb a' b'
  | _, _ => false
  end.

Definition registry := list (str * N).

(* self.suffix_map[k] = c  (later_wins, the rule found in the source today), or
   self.suffix_map.setdefault(k, c): an existing key keeps its value *)
Fixpoint reg_set (r : registry) (k : str) (c : N) : registry :=
  match r with
  | [] => [(k, c)]
  | (k', c') :: t =>
      if str_eqb k' k then (k', if later_wins then c else c') :: t else (k', c') :: reg_set t k c
  end.

(* self.suffix_map[k]; None = KeyError *)
Fixpoint reg_get (r : registry) (k : str) : option N :=
  match r with
  | [] => None
  | (k', c') :: t => if str_eqb k' k then Some c' else reg_get t k
  end.

(* one decorator application: file_suffix(names...)(cls) *)
Definition decorate (r : registry) (d : list str * N) : registry :=
  fold_left (fun r' n => reg_set r' n (snd d)) (fst d) r.

(* a fresh registry after a sequence of decorator applications *)
Definition register_all (ds : list (list str * N)) : registry := fold_left decorate ds [].

Inductive oev := Construct (c : N).

Definition open_workbook (r : registry) (suffix : str) : res N * list oev :=
  match reg_get r suffix with
  | Some c => (Ok c, [Construct c])
  | None => (Err NotImplementedError, [])
  end.

(* what an open gives for a found class / for an absent key *)
Definition answer (o : option N) : res N * list oev :=
  match o with
  | Some c => (Ok c, [Construct c])
  | None => (Err NotImplementedError, [])
  end.

(* A history of operations on one registry object (the operation vocabulary [hop] is the
   specification's): the registry has no state besides suffix_map - open_workbook reads the dict
   afresh on every call and nothing is remembered between calls - so a registration acts on the
   dict and an open looks the dict up as it is at that moment.  Result of every open, in order. *)
Fixpoint run_ops (r : registry) (ops : list hop) : list (res N * list oev) :=
  match ops with
  | [] => []
  | HRegister names c :: t => run_ops (decorate r (names, c)) t
  | HOpen s :: t => open_workbook r s :: run_ops r t
  end.

(* the module-level registry after importing stingray.workbook and stingray.implementations *)
Definition global_registry : registry := register_all registrations.

(* ---- pathlib: PurePath.suffix on a single component ---- *)
Definition dot : N := 46.

Fixpoint rfind_dot (name : str) (i : nat) (acc : option nat) : option nat :=
  match name with
  | [] => acc
  | c :: t => rfind_dot t (S i) (if c =? dot then Some i else acc)
  end.

Definition path_suffix (name : str) : str :=
  match rfind_dot name 0%nat None with
  | Some i => if (0 <? i)%nat && (i <? length name - 1)%nat then skipn i name else []
  | None => []
  end.
