(* Model of the RECFM readers of src/stingray/estruct.py as they are now:
   RECFM_F.record_iter / rdw_iter, RECFM_V._data_iter / record_iter / rdw_iter,
   RECFM_VB._data_iter / record_iter / rdw_iter / bdw_iter, RECFM_N.__init__ / record_iter / used.

   The source is a byte stream (the part of the file not yet read).  [read] is file.read(n) on a regular
   file: the first n remaining bytes, fewer only at end of file.  A negative count is what Python does with it:
   io.BufferedReader (kind 0, a file opened 'rb') accepts -1 = read to end of file and raises ValueError for
   n < -1;  io.BytesIO / unbuffered FileIO (kind 1) read to end of file for every negative n.

   A generator's behaviour is the triple (items yielded, how it ended, stream left unread).
   The buffer size and refill expression class of RECFM_N, the header format and the comparison of the
   corruption check of RECFM_VB come from Gen/RecfmParams.v (read from the source on every run). *)
From Coq Require Import ZArith NArith List Bool Arith.
Import ListNotations.
Require Import SR.Base.Res SR.Gen.RecfmParams.

Inductive fin :=
| Done                 (* StopIteration: the loop ended *)
| Raised (e : exn)     (* an exception left the generator *)
| Hang                 (* the loop cannot end (offset never advances); also: fuel exhausted *)
| More.                (* RECFM_N only: the consumer ran out of lengths while a buffer was offered *)

Section Stream.
Context {A : Type}.

Definition out (T : Type) : Type := (list T * fin * list A)%type.
Definition emit {T} (x : T) (o : out T) : out T := let '(l, f, r) := o in (x :: l, f, r).

Definition read (kind : N) (n : Z) (s : list A) : res (list A * list A) :=
  if (0 <=? n)%Z then Ok (firstn (Z.to_nat n) s, skipn (Z.to_nat n) s)
  else if (n =? -1)%Z || (kind =? 1)%N then Ok (s, [])
  else Err ValueError.

(* ---- RECFM_F.record_iter:
        if not self.lrecl: raise TypeError
        data = read(lrecl); while len(data) != 0: yield data; data = read(lrecl)          *)
Fixpoint F_loop (fuel : nat) (kind : N) (lrecl : Z) (s : list A) : out (list A) :=
  match fuel with
  | O => ([], Hang, s)
  | S f =>
      match read kind lrecl s with
      | Err e => ([], Raised e, s)
      | Ok (d, s') =>
          match d with
          | [] => ([], Done, s')
          | _ => emit d (F_loop f kind lrecl s')
          end
      end
  end.

(* lrecl None or 0 is falsy *)
Definition F_record_iter (kind : N) (lrecl : Z) (s : list A) : out (list A) :=
  if (lrecl =? 0)%Z then ([], Raised TypeError, s) else F_loop (S (length s)) kind lrecl s.

(* ---- RECFM_N: state = bytes read ahead + bytes still in the file *)
Record st := { buf : list A; rest : list A }.

(* __init__: self.buffer = self.source.read(K) *)
Definition N_init (B : nat) (file : list A) : st := {| buf := firstn B file; rest := skipn B file |}.

(* after the yield: remaining = buffer[used:];
     mode 0: buffer = remaining + read(K - len(remaining))
     mode 1: buffer = buffer[used:] + read(K - used)                          *)
Definition N_step (mode kind : N) (B : nat) (s : st) (used : nat) : res st :=
  let remaining := skipn used (buf s) in
  let want := if (mode =? 0)%N then (Z.of_nat B - Z.of_nat (length remaining))%Z
              else (Z.of_nat B - Z.of_nat used)%Z in
  match read kind want (rest s) with
  | Ok (d, r) => Ok {| buf := remaining ++ d; rest := r |}
  | Err e => Err e
  end.

(* record_iter driven by a consumer that, for each buffer it is handed, calls used(n) with the next
   announced length (n = 0 stands for "did not call used", which leaves _used = 0);
   items = the buffers yielded *)
Fixpoint N_run (mode kind : N) (B : nat) (s : st) (lens : list nat) : list (list A) * fin * st :=
  match buf s with
  | [] => ([], Done, s)                                   (* while len(self.buffer) != 0 *)
  | _ =>
      match lens with
      | [] => ([buf s], More, s)
      | n :: ls =>
          if (n =? 0)%nat then ([buf s], Raised RuntimeError, s)
          else match N_step mode kind B s n with
               | Err e => ([buf s], Raised e, s)
               | Ok s' => let '(l, f, s'') := N_run mode kind B s' ls in (buf s :: l, f, s'')
               end
      end
  end.

Definition N_read (kind : N) (file : list A) (lens : list nat) : list (list A) * fin * st :=
  N_run refill_mode kind (N.to_nat buffer_size) (N_init (N.to_nat buffer_size) file) lens.

End Stream.

Arguments st A : clear implicits.
Arguments out A T : clear implicits.

(* ---- headers: struct.unpack(fmt, b) needs exactly 4 bytes; the two pad bytes are ignored.
        struct.pack(fmt, n) needs 0 <= n <= 65535 *)
Definition unpack_H2x (b : list N) : res N :=
  match b with
  | [b0; b1; _; _] => Ok (if (hdr_fmt =? 0)%N then b0 * 256 + b1 else b1 * 256 + b0)%N
  | _ => Err StructError
  end.

Definition pack_H2x (n : N) : res (list N) :=
  if (n <=? 65535)%N
  then Ok (if (hdr_fmt =? 0)%N then [n / 256; n mod 256; 0; 0] else [n mod 256; n / 256; 0; 0])%N
  else Err StructError.

(* ---- RECFM_F.rdw_iter: for row in record_iter(): yield pack(len(row) + 4) + row *)
Fixpoint F_rdw_loop (fuel : nat) (kind : N) (lrecl : Z) (s : list N) : out N (list N) :=
  match fuel with
  | O => ([], Hang, s)
  | S f =>
      match read kind lrecl s with
      | Err e => ([], Raised e, s)
      | Ok (d, s') =>
          match d with
          | [] => ([], Done, s')
          | _ => match pack_H2x (N.of_nat (length d + 4)) with
                 | Err e => ([], Raised e, s')
                 | Ok h => emit (h ++ d) (F_rdw_loop f kind lrecl s')
                 end
          end
      end
  end.

Definition F_rdw_iter (kind : N) (lrecl : Z) (s : list N) : out N (list N) :=
  if (lrecl =? 0)%Z then ([], Raised TypeError, s) else F_rdw_loop (S (length s)) kind lrecl s.

(* ---- RECFM_V._data_iter:
        rdw = read(4); while len(rdw) != 0: size = unpack(rdw); data = read(size - 4); yield rdw, data; rdw = read(4) *)
Fixpoint V_loop (fuel : nat) (kind : N) (s : list N) : out N (list N * list N) :=
  match fuel with
  | O => ([], Hang, s)
  | S f =>
      let rdw := firstn 4 s in
      let s1 := skipn 4 s in
      match rdw with
      | [] => ([], Done, s1)
      | _ =>
          match unpack_H2x rdw with
          | Err e => ([], Raised e, s1)
          | Ok size =>
              match read kind (Z.of_N size - 4) s1 with
              | Err e => ([], Raised e, s1)
              | Ok (d, s2) => emit (rdw, d) (V_loop f kind s2)
              end
          end
      end
  end.

Definition V_data_iter (kind : N) (s : list N) : out N (list N * list N) := V_loop (S (length s)) kind s.

Definition payloads {T} (o : out N (T * list N)) : out N (list N) :=
  let '(l, f, r) := o in (map snd l, f, r).
Definition with_rdw (o : out N (list N * list N)) : out N (list N) :=
  let '(l, f, r) := o in (map (fun p => fst p ++ snd p) l, f, r).

Definition V_record_iter (kind : N) (s : list N) := payloads (V_data_iter kind s).
Definition V_rdw_iter (kind : N) (s : list N) := with_rdw (V_data_iter kind s).

(* ---- RECFM_VB.bdw_iter: same loop, yields bdw + block_data *)
Fixpoint B_loop (fuel : nat) (kind : N) (s : list N) : out N (list N) :=
  match fuel with
  | O => ([], Hang, s)
  | S f =>
      let bdw := firstn 4 s in
      let s1 := skipn 4 s in
      match bdw with
      | [] => ([], Done, s1)
      | _ =>
          match unpack_H2x bdw with
          | Err e => ([], Raised e, s1)
          | Ok size =>
              match read kind (Z.of_N size - 4) s1 with
              | Err e => ([], Raised e, s1)
              | Ok (d, s2) => emit (bdw ++ d) (B_loop f kind s2)
              end
          end
      end
  end.

Definition VB_bdw_iter (kind : N) (s : list N) : out N (list N) := B_loop (S (length s)) kind s.

(* ---- the inner loop of RECFM_VB._data_iter over one block of length L:
        offset = 0
        while offset != len(block):
            assert offset + 4 <= len(block)          (before fix eee0fb2:  offset + 4 < len(block))
            rdw = block[offset:offset+4]; size = unpack(rdw)
            yield rdw, block[offset+4 : offset+size]
            offset += size
      [suf] is block[offset:] (carried along instead of re-slicing).  size = 0 never advances:
      the same pair is yielded for ever (reported as one item and Hang).
      The comparison of the assert is READ FROM THE SOURCE (Gen/RecfmParams.v vb_rdw_fits_strict) and interpreted
      here: [strict] = true is the comparison of the tree before eee0fb2, under which a record descriptor word that
      ends exactly at the end of the block (a record without data bytes standing last) is refused.  The [_with]
      forms take the comparison as an argument; the reader as it is now instantiates them with the generated value. *)
Definition rdw_fits (strict : bool) (off L : N) : bool :=
  if strict then (off + 4 <? L)%N else (off + 4 <=? L)%N.

Fixpoint walk_with (strict : bool) (fuel : nat) (L off : N) (suf : list N) : list (list N * list N) * fin :=
  match fuel with
  | O => ([], Hang)
  | S f =>
      if (off =? L)%N then ([], Done)
      else if rdw_fits strict off L then
        let rdw := firstn 4 suf in
        match unpack_H2x rdw with
        | Err e => ([], Raised e)
        | Ok size =>
            if (size =? 0)%N then ([(rdw, [])], Hang)
            else let sz := N.to_nat size in
                 let '(l, fi) := walk_with strict f L (off + size)%N (skipn sz suf) in
                 ((rdw, firstn (sz - 4) (skipn 4 suf)) :: l, fi)
        end
      else ([], Raised AssertionError)
  end.

Definition walk_block_with (strict : bool) (block : list N) : list (list N * list N) * fin :=
  walk_with strict (S (length block)) (N.of_nat (length block)) 0%N block.

(* ---- RECFM_VB._data_iter: outer loop over blocks *)
Fixpoint VB_loop_with (strict : bool) (fuel : nat) (kind : N) (s : list N) : out N (list N * list N) :=
  match fuel with
  | O => ([], Hang, s)
  | S f =>
      let bdw := firstn 4 s in
      let s1 := skipn 4 s in
      match bdw with
      | [] => ([], Done, s1)
      | _ =>
          match unpack_H2x bdw with
          | Err e => ([], Raised e, s1)
          | Ok size =>
              match read kind (Z.of_N size - 4) s1 with
              | Err e => ([], Raised e, s1)
              | Ok (block, s2) =>
                  let '(items, fi) := walk_block_with strict block in
                  match fi with
                  | Done => let '(l, f', r) := VB_loop_with strict f kind s2 in (items ++ l, f', r)
                  | _ => (items, fi, s2)
                  end
              end
          end
      end
  end.

Definition VB_data_iter_with (strict : bool) (kind : N) (s : list N) : out N (list N * list N) :=
  VB_loop_with strict (S (length s)) kind s.
Definition VB_record_iter_with (strict : bool) (kind : N) (s : list N) := payloads (VB_data_iter_with strict kind s).
Definition VB_rdw_iter_with (strict : bool) (kind : N) (s : list N) := with_rdw (VB_data_iter_with strict kind s).

(* the reader as the source has it now *)
Definition walk := walk_with vb_rdw_fits_strict.
Definition walk_block := walk_block_with vb_rdw_fits_strict.
Definition VB_loop := VB_loop_with vb_rdw_fits_strict.
Definition VB_data_iter := VB_data_iter_with vb_rdw_fits_strict.
Definition VB_record_iter (kind : N) (s : list N) := VB_record_iter_with vb_rdw_fits_strict kind s.
Definition VB_rdw_iter (kind : N) (s : list N) := VB_rdw_iter_with vb_rdw_fits_strict kind s.

(* ======================================================================================================
   Resumed reading: several iterators, one after the other, on ONE reader object (one source).
   A generator that has delivered k items to itertools.islice(it, k) is suspended at its k-th yield and is
   never resumed: the source stays where the code had left it when it yielded.  islice(it, 0) never starts
   the generator.  [X_take fuel k] is the loop of [X_loop] stopped after the k-th yield; ending [More] =
   suspended (k items delivered), [Done] = the loop ended before k items.  The third component is the
   stream the NEXT iterator starts from. *)

Fixpoint F_take {A} (fuel k : nat) (kind : N) (lrecl : Z) (s : list A) : out A (list A) :=
  match k with
  | O => ([], More, s)
  | S k' =>
      match fuel with
      | O => ([], Hang, s)
      | S f =>
          match read kind lrecl s with
          | Err e => ([], Raised e, s)
          | Ok (d, s') =>
              match d with
              | [] => ([], Done, s')
              | _ => emit d (F_take f k' kind lrecl s')
              end
          end
      end
  end.

Fixpoint F_rdw_take (fuel k : nat) (kind : N) (lrecl : Z) (s : list N) : out N (list N) :=
  match k with
  | O => ([], More, s)
  | S k' =>
      match fuel with
      | O => ([], Hang, s)
      | S f =>
          match read kind lrecl s with
          | Err e => ([], Raised e, s)
          | Ok (d, s') =>
              match d with
              | [] => ([], Done, s')
              | _ => match pack_H2x (N.of_nat (length d + 4)) with
                     | Err e => ([], Raised e, s')
                     | Ok h => emit (h ++ d) (F_rdw_take f k' kind lrecl s')
                     end
              end
          end
      end
  end.

Fixpoint V_take (fuel k : nat) (kind : N) (s : list N) : out N (list N * list N) :=
  match k with
  | O => ([], More, s)
  | S k' =>
      match fuel with
      | O => ([], Hang, s)
      | S f =>
          let rdw := firstn 4 s in
          let s1 := skipn 4 s in
          match rdw with
          | [] => ([], Done, s1)
          | _ =>
              match unpack_H2x rdw with
              | Err e => ([], Raised e, s1)
              | Ok size =>
                  match read kind (Z.of_N size - 4) s1 with
                  | Err e => ([], Raised e, s1)
                  | Ok (d, s2) => emit (rdw, d) (V_take f k' kind s2)
                  end
              end
          end
      end
  end.

Fixpoint B_take (fuel k : nat) (kind : N) (s : list N) : out N (list N) :=
  match k with
  | O => ([], More, s)
  | S k' =>
      match fuel with
      | O => ([], Hang, s)
      | S f =>
          let bdw := firstn 4 s in
          let s1 := skipn 4 s in
          match bdw with
          | [] => ([], Done, s1)
          | _ =>
              match unpack_H2x bdw with
              | Err e => ([], Raised e, s1)
              | Ok size =>
                  match read kind (Z.of_N size - 4) s1 with
                  | Err e => ([], Raised e, s1)
                  | Ok (d, s2) => emit (bdw ++ d) (B_take f k' kind s2)
                  end
              end
          end
      end
  end.

(* the walk over one block, stopped after k yields; also returns how many items are still wanted.
   A length word of 0 yields the same pair again and again: k of them.  Same assert, same parameter. *)
Fixpoint walk_take_with (strict : bool) (fuel k : nat) (L off : N) (suf : list N) : list (list N * list N) * fin * nat :=
  match k with
  | O => ([], More, O)
  | S k' =>
      match fuel with
      | O => ([], Hang, k)
      | S f =>
          if (off =? L)%N then ([], Done, k)
          else if rdw_fits strict off L then
            let rdw := firstn 4 suf in
            match unpack_H2x rdw with
            | Err e => ([], Raised e, k)
            | Ok size =>
                if (size =? 0)%N then (repeat (rdw, []) k, More, O)
                else let sz := N.to_nat size in
                     let '(l, fi, want) := walk_take_with strict f k' L (off + size)%N (skipn sz suf) in
                     ((rdw, firstn (sz - 4) (skipn 4 suf)) :: l, fi, want)
            end
          else ([], Raised AssertionError, k)
      end
  end.

(* RECFM_VB._data_iter stopped after k yields.  The block being walked lives in a local variable of the
   suspended generator: when the k-th record is not the last of its block, the rest of that block is lost
   to the next iterator (the stream continues after the block). *)
Fixpoint VB_take_with (strict : bool) (fuel k : nat) (kind : N) (s : list N) : out N (list N * list N) :=
  match k with
  | O => ([], More, s)
  | S _ =>
      match fuel with
      | O => ([], Hang, s)
      | S f =>
          let bdw := firstn 4 s in
          let s1 := skipn 4 s in
          match bdw with
          | [] => ([], Done, s1)
          | _ =>
              match unpack_H2x bdw with
              | Err e => ([], Raised e, s1)
              | Ok size =>
                  match read kind (Z.of_N size - 4) s1 with
                  | Err e => ([], Raised e, s1)
                  | Ok (block, s2) =>
                      let '(items, fi, want) :=
                        walk_take_with strict (S (length block)) k (N.of_nat (length block)) 0%N block in
                      match fi with
                      | Done => let '(l, f', r) := VB_take_with strict f want kind s2 in (items ++ l, f', r)
                      | _ => (items, fi, s2)
                      end
                  end
              end
          end
      end
  end.

Definition walk_take := walk_take_with vb_rdw_fits_strict.
Definition VB_take := VB_take_with vb_rdw_fits_strict.

(* one pass = (iterator, how many items): iterator 0 = record_iter, 1 = rdw_iter, 2 = bdw_iter;
   None = run to exhaustion, Some k = islice(it, k) *)
Definition pass : Type := (N * option nat)%type.

Definition no_such_iter (s : list N) : out N (list N) := ([], Raised AttributeError, s).

Definition F_pass (kind : N) (lrecl : Z) (p : pass) (s : list N) : out N (list N) :=
  let '(w, k) := p in
  if (w =? 0)%N then
    match k with
    | None => F_record_iter kind lrecl s
    | Some O => ([], More, s)
    | Some n => if (lrecl =? 0)%Z then ([], Raised TypeError, s) else F_take (S (length s)) n kind lrecl s
    end
  else if (w =? 1)%N then
    match k with
    | None => F_rdw_iter kind lrecl s
    | Some O => ([], More, s)
    | Some n => if (lrecl =? 0)%Z then ([], Raised TypeError, s) else F_rdw_take (S (length s)) n kind lrecl s
    end
  else no_such_iter s.

Definition V_pass (kind : N) (p : pass) (s : list N) : out N (list N) :=
  let '(w, k) := p in
  if (w =? 0)%N then
    match k with None => V_record_iter kind s | Some n => payloads (V_take (S (length s)) n kind s) end
  else if (w =? 1)%N then
    match k with None => V_rdw_iter kind s | Some n => with_rdw (V_take (S (length s)) n kind s) end
  else no_such_iter s.

Definition VB_pass (kind : N) (p : pass) (s : list N) : out N (list N) :=
  let '(w, k) := p in
  if (w =? 0)%N then
    match k with None => VB_record_iter kind s | Some n => payloads (VB_take (S (length s)) n kind s) end
  else if (w =? 1)%N then
    match k with None => VB_rdw_iter kind s | Some n => with_rdw (VB_take (S (length s)) n kind s) end
  else
    match k with None => VB_bdw_iter kind s | Some n => B_take (S (length s)) n kind s end.

(* the passes one after the other, each starting where the previous one left the source *)
Fixpoint run_passes (one : pass -> list N -> out N (list N)) (ps : list pass) (s : list N) : list (out N (list N)) :=
  match ps with
  | [] => []
  | p :: ps' => let o := one p s in o :: run_passes one ps' (snd o)
  end.
