(* Model of stingray.cobol_parser.clause_dict (src/stingray/cobol_parser.py, CLAUSES / clause_pattern / clause_dict
   and the naming lines of DDE.__init__), the code as it is now.

     clauses = (the non-empty named groups of c  for c in clause_pattern.finditer(source))
     non_empty_clauses = dict merge of all of them, a later match overwrites an earlier key
     if picture in it: _picture_parsed = normalize_picture(picture)      -- may raise IndexError / ValueError

   clause_pattern = re.compile(CLAUSES, re.IGNORECASE), CLAUSES = fifteen alternatives.  finditer: at every position the
   alternatives are tried in source order, the first that matches wins; when none matches the scanner advances by one
   character.  No alternative can match the empty string.  What varies in the pattern text (order of the alternatives,
   synonym lists, the usage word list, the lookahead, which optional words are optional, the flag, the two character
   classes, the character tables of the interpreter) is read from the source by T1 (Gen/ClausesParams.v).

   Python's matcher backtracks.  Every alternative is written here as a direct function where its first successful
   path can be read off the pattern:
     - SPACE (one or more of white space, bar, comma, semicolon) followed by a literal letter, a digit or NAME never
       needs backtracking (the classes are disjoint): [sp1] is the greedy run;
     - a greedy optional word group is tried first and, when the REST of the alternative then fails, skipped: the
       candidates of one or two optional words are listed in priority order ([opt_word_sp], [prefix2]);
     - an ordered alternation of words is a first-success search in list order ([first_some]); for the usage words the
       lookahead is part of the test, so COMP-5 fails (COMP is followed by a hyphen) and COMP-34 is COMP-3 then 4;
     - PIC and VALUE are followed by a run of non-white-space, which overlaps SPACE on bar, comma and semicolon: here the
       separator run really is backtracked ([plus_bt], longest first, at least one character);
     - the quoted VALUE literal is greedy to the LAST quote before a line feed (no DOTALL);
     - the KEY / INDEXED BY tail of the two OCCURS alternatives contains a starred group that ends in NAME and is
       followed by SPACE: it is modelled with continuations, alternative by alternative ([key_tail]); it has no named
       group, only the end of the match depends on it.  Its star has explicit fuel ([KFuel], never reached).
   The transcription was first written in plain Python and compared with clause_pattern.finditer (groups and spans) on
   one million generated strings before it was moved to Gallina; the harness repeats that comparison on every run.

   A string is a list of code points.  Captured text is kept exactly as written (letter case, inner spacing). *)
From Coq Require Import NArith List Bool.
Import ListNotations.
Require Import SR.Base.Res SR.Gen.ClausesParams.
Require SR.Model.Picture.
Open Scope N_scope.

(* ---------------------------------------------------------------- character classes *)
Definition mem (c : N) (l : list N) : bool := existsb (N.eqb c) l.
Definition in_ranges (rs : list (N * N)) (c : N) : bool := existsb (fun r => (fst r <=? c) && (c <=? snd r)) rs.

Definition is_ws (c : N) : bool := mem c ws_points.
Definition is_word (c : N) : bool := if c <? 128 then in_ranges word_lo c else in_ranges word_hi c.
Definition is_sp (c : N) : bool := (space_ws && is_ws c) || mem c space_extra.
Definition is_name (c : N) : bool := (name_word && is_word c) || mem c name_extra.
Definition is_nd (c : N) : bool := SR.Model.Picture.is_nd c.
Definition non_ws (c : N) : bool := negb (is_ws c).

Fixpoint assoc (c : N) (l : list (N * N)) : option N :=
  match l with [] => None | (a, b) :: r => if a =? c then Some b else assoc c r end.

(* what IGNORECASE does to a literal of the pattern (all literals are upper-case letters, digits, hyphen) *)
Definition up (c : N) : N :=
  if ignorecase then
    (if (97 <=? c) && (c <=? 122) then c - 32
     else match assoc c fold_extra with Some u => u | None => c end)
  else c.

(* ---------------------------------------------------------------- small matchers *)
(* a literal word at the head of s: what follows it *)
Fixpoint lit (w s : list N) : option (list N) :=
  match w with
  | [] => Some s
  | x :: w' => match s with
               | [] => None
               | c :: t => if up c =? x then lit w' t else None
               end
  end.

Fixpoint span (p : N -> bool) (s : list N) : list N * list N :=
  match s with
  | [] => ([], [])
  | c :: t => if p c then (let (a, b) := span p t in (c :: a, b)) else ([], s)
  end.

(* one or more, greedy, no backtracking: (matched text, rest) *)
Definition plus1 (p : N -> bool) (s : list N) : option (list N * list N) :=
  match span p s with
  | ([], _) => None
  | (a, r) => Some (a, r)
  end.

Definition sp1 (s : list N) : option (list N) := option_map snd (plus1 is_sp s).
Definition name1 (s : list N) : option (list N * list N) := plus1 is_name s.
Definition digits1 (s : list N) : option (list N * list N) := plus1 is_nd s.
Definition nonws1 (s : list N) : option (list N * list N) := plus1 non_ws s.

(* one or more, greedy, WITH backtracking: the continuation is tried after the longest run first *)
Fixpoint plus_bt {R : Type} (p : N -> bool) (s : list N) (k : list N -> option R) : option R :=
  match s with
  | [] => None
  | c :: t =>
      if p c then match plus_bt p t k with Some r => Some r | None => k t end
      else None
  end.

Fixpoint first_some {A B : Type} (f : A -> option B) (l : list A) : option B :=
  match l with
  | [] => None
  | x :: r => match f x with Some y => Some y | None => first_some f r end
  end.

(* text of s up to rest, rest being a suffix of s *)
Definition consumed (s rest : list N) : list N := firstn (length s - length rest) s.

(* W SPACE *)
Definition word_sp (w s : list N) : option (list N) :=
  match lit w s with Some r => sp1 r | None => None end.

(* an optional (or, flag false, mandatory) group  W SPACE : the places where the rest of the alternative may start,
   in the order the matcher tries them *)
Definition opt_word_sp (optional : bool) (w s : list N) : list (list N) :=
  match word_sp w s with
  | Some r => if optional then [r; s] else [r]
  | None => if optional then [s] else []
  end.

Definition prefix2 (o1 : bool) (w1 : list N) (o2 : bool) (w2 : list N) (s : list N) : list (list N) :=
  flat_map (opt_word_sp o2 w2) (opt_word_sp o1 w1 s).

(* ---------------------------------------------------------------- the fixed words of the pattern *)
Definition W_REDEFINES : list N := [82; 69; 68; 69; 70; 73; 78; 69; 83].
Definition W_BLANK : list N := [66; 76; 65; 78; 75].
Definition W_WHEN : list N := [87; 72; 69; 78].
Definition W_EXTERNAL : list N := [69; 88; 84; 69; 82; 78; 65; 76].
Definition W_GLOBAL : list N := [71; 76; 79; 66; 65; 76].
Definition W_RIGHT : list N := [82; 73; 71; 72; 84].
Definition W_LEFT : list N := [76; 69; 70; 84].
Definition W_OCCURS : list N := [79; 67; 67; 85; 82; 83].
Definition W_TO : list N := [84; 79].
Definition W_TIMES : list N := [84; 73; 77; 69; 83].
Definition W_DEPENDING : list N := [68; 69; 80; 69; 78; 68; 73; 78; 71].
Definition W_ON : list N := [79; 78].
Definition W_IS : list N := [73; 83].
Definition W_SIGN : list N := [83; 73; 71; 78].
Definition W_LEADING : list N := [76; 69; 65; 68; 73; 78; 71].
Definition W_TRAILING : list N := [84; 82; 65; 73; 76; 73; 78; 71].
Definition W_SEPARATE : list N := [83; 69; 80; 65; 82; 65; 84; 69].
Definition W_CHARACTER : list N := [67; 72; 65; 82; 65; 67; 84; 69; 82].
Definition W_USAGE : list N := [85; 83; 65; 71; 69].
Definition W_VALUE : list N := [86; 65; 76; 85; 69].
Definition W_FILLER : list N := [70; 73; 76; 76; 69; 82].
Definition W_ASCENDING : list N := [65; 83; 67; 69; 78; 68; 73; 78; 71].
Definition W_DESCENDING : list N := [68; 69; 83; 67; 69; 78; 68; 73; 78; 71].
Definition W_KEY : list N := [75; 69; 89].
Definition W_INDEXED : list N := [73; 78; 68; 69; 88; 69; 68].
Definition W_BY : list N := [66; 89].

(* ---------------------------------------------------------------- groups *)
Inductive key :=
| KRedefines | KBlank | KJustified | KOdoMin | KOdoMax | KDepending | KOccurs | KPicture
| KSign | KSignSep | KSynch | KUsage | KValue | KFiller | KName.

Definition key_code (k : key) : N :=
  match k with
  | KRedefines => 0 | KBlank => 1 | KJustified => 2 | KOdoMin => 3 | KOdoMax => 4 | KDepending => 5 | KOccurs => 6
  | KPicture => 7 | KSign => 8 | KSignSep => 9 | KSynch => 10 | KUsage => 11 | KValue => 12 | KFiller => 13 | KName => 14
  end.
Definition key_eqb (a b : key) : bool := key_code a =? key_code b.

Definition all_keys : list key :=
  [KRedefines; KBlank; KJustified; KOdoMin; KOdoMax; KDepending; KOccurs; KPicture; KSign; KSignSep; KSynch; KUsage;
   KValue; KFiller; KName].

(* the non-empty named groups of one match *)
Definition groups := list (key * list N).

(* result of trying one alternative at the head of the text *)
Inductive ares := ANo | AYes (g : groups) (rest : list N) | AFuel.

Definition of_opt (o : option (groups * list N)) : ares :=
  match o with Some (g, r) => AYes g r | None => ANo end.

(* ---------------------------------------------------------------- the KEY tail of the OCCURS alternatives *)
(*   (?: SPACE KEY )?   with   KEY = ( (ASCENDING|DESCENDING) SPACE (KEY SPACE)? (IS SPACE)? NAME )*
                                     (?: SPACE INDEXED SPACE (BY SPACE)? NAME (?: SPACE NAME )* )
   Continuation passing, every choice point in the matcher's order.  Result of a continuation: None = this path
   fails, Some (KDone rest) = the whole tail matched up to rest, Some KFuel = the star ran out of fuel. *)
Inductive kres := KDone (rest : list N) | KFuel.
Definition kcont := list N -> option kres.

Definition k_opt (m : list N -> kcont -> option kres) (s : list N) (k : kcont) : option kres :=
  match m s k with Some r => Some r | None => k s end.

Definition k_word_sp (w : list N) (s : list N) (k : kcont) : option kres :=
  match lit w s with Some r => plus_bt is_sp r k | None => None end.

Definition key_A_after (r : list N) (k : kcont) : option kres :=
  plus_bt is_sp r (fun s2 => k_opt (k_word_sp W_KEY) s2 (fun s3 => k_opt (k_word_sp W_IS) s3 (fun s4 => plus_bt is_name s4 k))).

Definition key_A (s : list N) (k : kcont) : option kres :=
  match (match lit W_ASCENDING s with Some r => key_A_after r k | None => None end) with
  | Some x => Some x
  | None => match lit W_DESCENDING s with Some r => key_A_after r k | None => None end
  end.

Fixpoint star_A (fuel : nat) (s : list N) (k : kcont) : option kres :=
  match fuel with
  | O => Some KFuel
  | S f => match key_A s (fun s2 => star_A f s2 k) with Some x => Some x | None => k s end
  end.

(* (?: SPACE NAME )*  : each round consumes at least two characters; the skip counter keeps the recursion structural *)
Fixpoint star_N (fuel : nat) (s : list N) (k : kcont) : option kres :=
  match fuel with
  | O => Some KFuel
  | S f =>
      match plus_bt is_sp s (fun s2 => plus_bt is_name s2 (fun s3 => star_N f s3 k)) with
      | Some x => Some x
      | None => k s
      end
  end.

Definition key_B (fuel : nat) (s : list N) (k : kcont) : option kres :=
  plus_bt is_sp s (fun s1 =>
    match lit W_INDEXED s1 with
    | None => None
    | Some r => plus_bt is_sp r (fun s3 => k_opt (k_word_sp W_BY) s3 (fun s4 => plus_bt is_name s4 (fun s5 => star_N fuel s5 k)))
    end).

(* the rest after the optional tail; None = out of fuel *)
Definition key_tail (s : list N) : option (list N) :=
  let fuel := S (length s) in
  match plus_bt is_sp s (fun s1 => star_A fuel s1 (fun s2 => key_B fuel s2 (fun r => Some (KDone r)))) with
  | Some (KDone r) => Some r
  | Some KFuel => None
  | None => Some s
  end.

Definition with_key_tail (g : groups) (r : list N) : ares :=
  match key_tail r with Some r' => AYes g r' | None => AFuel end.

(* ---------------------------------------------------------------- the alternatives *)
(* 0: SPACE *)
Definition alt_space (s : list N) : ares := match sp1 s with Some r => AYes [] r | None => ANo end.

(* 1: REDEFINES SPACE NAME *)
Definition alt_redefines (s : list N) : ares :=
  match word_sp W_REDEFINES s with
  | Some r => match name1 r with Some (n, r') => AYes [(KRedefines, n)] r' | None => ANo end
  | None => ANo
  end.

(* 2: BLANK SPACE (WHEN SPACE)? (ZERO|ZEROES|ZEROS): the first word of the list that fits is taken *)
Definition zero_at (s : list N) : option (groups * list N) :=
  first_some (fun w => match lit w s with Some r => Some ([(KBlank, firstn (length w) s)], r) | None => None end) zero_words.

Definition alt_blank (s : list N) : ares :=
  match word_sp W_BLANK s with
  | Some r => of_opt (first_some zero_at (opt_word_sp when_opt W_WHEN r))
  | None => ANo
  end.

(* 3, 4: EXTERNAL, GLOBAL (no group, no word boundary) *)
Definition alt_word (w s : list N) : ares := match lit w s with Some r => AYes [] r | None => ANo end.

(* 5: (JUSTIFIED|JUST) SPACE (RIGHT)? *)
Definition alt_justified (s : list N) : ares :=
  match first_some (fun w => word_sp w s) just_words with
  | Some r => match lit W_RIGHT r with
              | Some r' => AYes [(KJustified, firstn 5 r)] r'
              | None => AYes [] r
              end
  | None => ANo
  end.

(* (?: SPACE TIMES )?  -- or mandatory *)
Definition times_part (optional : bool) (s : list N) : option (list N) :=
  match (match sp1 s with Some r => lit W_TIMES r | None => None end) with
  | Some r => Some r
  | None => if optional then Some s else None
  end.

(* (?: ON SPACE )? NAME *)
Definition dep_name (s : list N) : option (list N * list N) :=
  match (match word_sp W_ON s with Some r => name1 r | None => None end) with
  | Some x => Some x
  | None => if on_opt then name1 s else None
  end.

(* 6: OCCURS SPACE (digits SPACE TO SPACE)? digits (SPACE TIMES)? SPACE DEPENDING SPACE (ON SPACE)? NAME (SPACE KEY)? *)
Definition odo_from_max (g : groups) (s : list N) : option (groups * list N) :=
  match digits1 s with
  | None => None
  | Some (d, r) =>
      match times_part times_odo_opt r with
      | None => None
      | Some r1 =>
          match sp1 r1 with
          | None => None
          | Some r2 =>
              match word_sp W_DEPENDING r2 with
              | None => None
              | Some r3 =>
                  match dep_name r3 with
                  | None => None
                  | Some (n, r4) => Some (g ++ [(KOdoMax, d); (KDepending, n)], r4)
                  end
              end
          end
      end
  end.

Definition odo_with_min (s : list N) : option (groups * list N) :=
  match digits1 s with
  | None => None
  | Some (d, r) =>
      match sp1 r with
      | None => None
      | Some r1 => match word_sp W_TO r1 with
                   | None => None
                   | Some r2 => odo_from_max [(KOdoMin, d)] r2
                   end
      end
  end.

Definition alt_odo (s : list N) : ares :=
  match word_sp W_OCCURS s with
  | None => ANo
  | Some r =>
      match (match odo_with_min r with Some x => Some x | None => odo_from_max [] r end) with
      | Some (g, r') => with_key_tail g r'
      | None => ANo
      end
  end.

(* 7: OCCURS SPACE digits (SPACE TIMES)? (SPACE KEY)? *)
Definition alt_occurs (s : list N) : ares :=
  match word_sp W_OCCURS s with
  | None => ANo
  | Some r =>
      match digits1 r with
      | None => ANo
      | Some (d, r1) =>
          match times_part times_occ_opt r1 with
          | None => ANo
          | Some r2 => with_key_tail [(KOccurs, d)] r2
          end
      end
  end.

(* (?: IS SPACE )? body   after a separator run; the run after IS is backtracked like the first one *)
Definition is_then (optional : bool) (body : list N -> option (list N * list N)) (s : list N) : option (list N * list N) :=
  match (match lit W_IS s with Some r => plus_bt is_sp r body | None => None end) with
  | Some x => Some x
  | None => if optional then body s else None
  end.

(* 8: (PIC|PICTURE) SPACE (IS SPACE)? nonwhite+ *)
Definition alt_picture (s : list N) : ares :=
  match first_some (fun w => match lit w s with Some r => plus_bt is_sp r (is_then pic_is_opt nonws1) | None => None end) pic_words with
  | Some (p, r) => AYes [(KPicture, p)] r
  | None => ANo
  end.

(* 9: (SIGN SPACE)? (IS SPACE)? (LEADING|TRAILING) (SPACE SEPARATE SPACE CHARACTER | SPACE SEPARATE) *)
(* SPACE W *)
Definition sp_word (w s : list N) : option (list N) :=
  match sp1 s with Some r => lit w r | None => None end.

(* the end of the sign_sep group that starts at r1 *)
Definition sign_sep_end (r1 : list N) : option (list N) :=
  match sp_word W_SEPARATE r1 with
  | None => None
  | Some b => match sp_word W_CHARACTER b with Some d => Some d | None => Some b end
  end.

Definition sign_at (r : list N) : option (groups * list N) :=
  first_some (fun w =>
    match lit w r with
    | None => None
    | Some r1 => match sign_sep_end r1 with
                 | None => None
                 | Some e => Some ([(KSign, firstn (length w) r); (KSignSep, consumed r1 e)], e)
                 end
    end) [W_LEADING; W_TRAILING].

Definition alt_sign (s : list N) : ares :=
  of_opt (first_some sign_at (prefix2 sign_word_opt W_SIGN sign_is_opt W_IS s)).

(* 10: (SYNCHRONIZED|SYNC) (SPACE LEFT | SPACE RIGHT)? *)
Definition alt_sync (s : list N) : ares :=
  match first_some (fun w => lit w s) sync_words with
  | None => ANo
  | Some r =>
      match first_some (fun w => sp_word w r) [W_LEFT; W_RIGHT] with
      | Some b => AYes [(KSynch, consumed r b)] b
      | None => AYes [] r
      end
  end.

(* 11: (USAGE SPACE)? (IS SPACE)? usage-word (?!-) *)
Definition guard_ok (r : list N) : bool :=
  if usage_guard then match r with c :: _ => negb (c =? 45) | [] => true end else true.

Definition usage_at (r : list N) : option (groups * list N) :=
  first_some (fun w =>
    match lit w r with
    | Some r1 => if guard_ok r1 then Some ([(KUsage, firstn (length w) r)], r1) else None
    | None => None
    end) usage_words.

Definition alt_usage (s : list N) : ares :=
  of_opt (first_some usage_at (prefix2 usage_word_opt W_USAGE usage_is_opt W_IS s)).

(* 12: VALUE SPACE (IS SPACE)? ( quote anything quote | dquote anything dquote | nonwhite+ ) *)
(* number of characters of l up to and including the last q *)
Fixpoint last_q (q : N) (l : list N) : option nat :=
  match l with
  | [] => None
  | c :: t => match last_q q t with
              | Some n => Some (S n)
              | None => if c =? q then Some 1%nat else None
              end
  end.

Definition not_nl (c : N) : bool := negb (c =? 10).

Definition quoted (q : N) (s : list N) : option (list N * list N) :=
  match s with
  | [] => None
  | c :: t =>
      if c =? q then
        match last_q q (fst (span not_nl t)) with
        | Some n => Some (c :: firstn n t, skipn n t)
        | None => None
        end
      else None
  end.

Definition value_body (s : list N) : option (list N * list N) :=
  match quoted 39 s with
  | Some x => Some x
  | None => match quoted 34 s with
            | Some x => Some x
            | None => nonws1 s
            end
  end.

Definition alt_value (s : list N) : ares :=
  match lit W_VALUE s with
  | None => ANo
  | Some r => match plus_bt is_sp r (is_then value_is_opt value_body) with
              | Some (v, r') => AYes [(KValue, v)] r'
              | None => ANo
              end
  end.

(* 13: FILLER   14: NAME *)
Definition alt_filler (s : list N) : ares :=
  match lit W_FILLER s with Some r => AYes [(KFiller, firstn 6 s)] r | None => ANo end.

Definition alt_name (s : list N) : ares :=
  match name1 s with Some (n, r) => AYes [(KName, n)] r | None => ANo end.

Definition alt (id : N) (s : list N) : ares :=
  match id with
  | 0 => alt_space s | 1 => alt_redefines s | 2 => alt_blank s | 3 => alt_word W_EXTERNAL s | 4 => alt_word W_GLOBAL s
  | 5 => alt_justified s | 6 => alt_odo s | 7 => alt_occurs s | 8 => alt_picture s | 9 => alt_sign s | 10 => alt_sync s
  | 11 => alt_usage s | 12 => alt_value s | 13 => alt_filler s | 14 => alt_name s
  | _ => ANo
  end.

(* ---------------------------------------------------------------- finditer *)
Inductive item := Tok (id : N) (g : groups) | Skip (c : N) | Fuel.

(* the first alternative, in the order of the pattern text, that matches at the head of s *)
Fixpoint try_alts (ids : list N) (s : list N) : option (item * list N) :=
  match ids with
  | [] => None
  | id :: r =>
      match alt id s with
      | AYes g rest => Some (Tok id g, rest)
      | AFuel => Some (Fuel, [])
      | ANo => try_alts r s
      end
  end.

Definition token_at (s : list N) : option (item * list N) := try_alts alt_order s.

(* [skip] = characters of the current match still to be passed over *)
Fixpoint scan (skip : nat) (s : list N) : list item :=
  match s with
  | [] => []
  | c :: t =>
      match skip with
      | S k => scan k t
      | O =>
          match token_at s with
          | Some (i, rest) => i :: scan (length t - length rest) t
          | None => Skip c :: scan 0 t
          end
      end
  end.

Definition items (s : list N) : list item := scan 0 s.

Definition is_fuel (i : item) : bool := match i with Fuel => true | _ => false end.

(* ---------------------------------------------------------------- the dict *)
Definition merged (l : list item) : groups :=
  flat_map (fun i => match i with Tok _ g => g | _ => [] end) l.

(* the value a key ends up with: the last binding *)
Definition get (k : key) (d : groups) : option (list N) :=
  fold_left (fun acc kv => if key_eqb (fst kv) k then Some (snd kv) else acc) d None.

(* the dict as a list of bindings in the fixed key order (dict equality does not look at insertion order) *)
Definition canon (d : groups) : groups :=
  flat_map (fun k => match get k d with Some v => [(k, v)] | None => [] end) all_keys.

Record clause_record := { cr_dict : groups; cr_parsed : option (list SR.Model.Picture.elt) }.

(* clause_dict; None = out of fuel (never: see Proofs/ClausesP.v for the printed language) *)
Definition clause_dict (s : list N) : option (res clause_record) :=
  let l := items s in
  if existsb is_fuel l then None
  else
    let d := canon (merged l) in
    match get KPicture (merged l) with
    | None => Some (Ok {| cr_dict := d; cr_parsed := None |})
    | Some p =>
        match SR.Model.Picture.gen_normalize p with
        | None => None
        | Some (Err e) => Some (Err e)
        | Some (Ok es) => Some (Ok {| cr_dict := d; cr_parsed := Some es |})
        end
    end.

(* ---------------------------------------------------------------- DDE.__init__: the naming lines *)
(* name = clauses.get(name) or clauses.get(filler) or FILLER; with filler_count = 0 before the call and a level other
   than 01: unique_name = FILLER-1 when name == FILLER (exact, upper case), else the name *)
Definition dde_name (d : groups) : list N :=
  match get KName d with
  | Some n => n
  | None => match get KFiller d with Some f => f | None => W_FILLER end
  end.

Fixpoint str_eqb (a b : list N) : bool :=
  match a, b with
  | [], [] => true
  | x :: a', y :: b' => (x =? y) && str_eqb a' b'
  | _, _ => false
  end.

Definition dde_unique (d : groups) : list N :=
  if str_eqb (dde_name d) W_FILLER then W_FILLER ++ [45; 49] else dde_name d.
