(* Model of what cobol_parser.py says about ONE elementary item and of how the generated
   document is loaded (src/stingray/cobol_parser.py, schema_instance.py), as the code is now:

     JSONSchemaMaker.json_type / JSONSchemaMakerExtendedVocabulary.json_type
        usage = clauses.get('usage', 'DISPLAY'); if usage == 'DISPLAY': picture and
        all(c.upper() in {S V P 9} for c in picture) - a test on the RAW picture text, so a
        picture in repeat notation, 9(3), is not numeric here - elif usage in {...} ... else raise
        DesignError.  Name sets, character set and emitted dicts come from Gen/JsonTypeParams.v.
     build_json_schema, elementary branch
        json_schema |= json_type(node); maxLength = minLength = unpacker.calcsize(...)
        = estruct.calcsize(cobol text) (Model/Estruct.v calcsize).
     EBCDIC.value
        CONVERSION[attributes.get('conversion')](estruct.unpack(cobol text, bytes)) - the decoder
        makes its own numeric-or-text decision from the PARSED picture (Model/Estruct.v unpack for
        every numeric picture, unpack_x for text), CONVERSION is Model/Conversion.v conversion_type.
     SchemaMaker.from_json on the generated document (tree type of Model/Layout.v)
        walk_schema in document order with name_cache keyed by $anchor, else title; $ref looked up
        at once or deferred to resolve(); maxItemsDependsOn looked up at once or ValueError.

   Pictures are the ones of Spec/SchemaTruth.v (fpic); json_type sees the printed text. *)
From Coq Require Import ZArith NArith List Bool.
Import ListNotations.
Require Import SR.Base.Res SR.Gen.JsonTypeParams SR.Spec.Layout SR.Model.Layout SR.Model.Estruct SR.Model.Conversion
  SR.Spec.SchemaTruth.
Open Scope N_scope.

(* ------------------------------------------------------------------ json_type *)

(* str.upper on the characters a PICTURE can hold (ASCII) *)
Definition upper (c : N) : N := if (97 <=? c) && (c <=? 122) then c - 32 else c.

Definition all_in (chars : list N) (up : bool) (txt : list N) : bool :=
  forallb (fun c => mem (if up then upper c else c) chars) txt.

(* picture and all(...) *)
Definition numeric_text (chars : list N) (up : bool) (txt : list N) : bool :=
  match txt with [] => false | _ => all_in chars up txt end.

Fixpoint chain (u : N) (bs : list (list N * (N * N * N))) : res (N * N * N) :=
  match bs with
  | [] => Err DesignError
  | (names, out) :: r => if mem u names then Ok out else chain u r
  end.

Definition json_type (u : N) (txt : list N) : res (N * N * N) :=
  if mem u jt_display then
    Ok (if numeric_text jt_numeric_chars jt_upper txt then jt_out_numeric else jt_out_text)
  else chain u jt_branches.

Definition json_type_ext (u : N) (txt : list N) : res (N * N * N) :=
  if mem u xt_display then
    Ok (if numeric_text xt_numeric_chars xt_upper txt then xt_out_numeric else xt_out_text)
  else chain u xt_branches.

(* ------------------------------------------------------------------ the elementary branch *)

(* the picture as estruct's parser sees it: X and A positions count like 9 positions *)
Definition est_pic (p : fpic) : pic :=
  match p with
  | PNum s m n _ _ => mkpic s m n
  | PText _ k _ => mkpic false k 0
  end.

Record field := mkfield { f_type : N; f_enc : N; f_conv : N; f_min : N; f_max : N }.

Definition emit_with (jt : N -> list N -> res (N * N * N)) (u : N) (p : fpic) : res field :=
  match jt u (pic_text p) with
  | Err e => Err e
  | Ok (t, e, c) =>
      match calcsize u (est_pic p) with
      | Err ex => Err ex
      | Ok sz => Ok (mkfield t e c sz sz)
      end
  end.

Definition emit_field : N -> fpic -> res field := emit_with json_type.
Definition emit_field_ext : N -> fpic -> res field := emit_with json_type_ext.

(* ------------------------------------------------------------------ EBCDIC.value *)

Definition decode (u : N) (p : fpic) (buffer : list N) : res pyval :=
  match p with
  | PNum s m n _ _ => unpack u (mkpic s m n) buffer
  | PText _ k _ => unpack_x u k buffer
  end.

(* Python type codes of Spec/Conversion.v *)
Definition pytype_of (v : pyval) : Z :=
  match v with VDec _ => 5%Z | VInt _ => 2%Z | VStr _ => 4%Z end.

(* type(CONVERSION[conversion](estruct.unpack(...)[0])) *)
Definition delivered_type (u : N) (p : fpic) (conv : N) (buffer : list N) : res Z :=
  match decode u p buffer with
  | Err e => Err e
  | Ok v => conversion_type (Z.of_N conv) (pytype_of v)
  end.

(* ------------------------------------------------------------------ SchemaMaker.from_json *)

(* what the loader's name_cache holds: the class of the Schema object and its $anchor *)
Inductive cls := CAtomic | CArray | CDepends | CObject | COneOf | CRef.
Definition cls_code (c : cls) : Z :=
  match c with CAtomic => 0 | CArray => 1 | CDepends => 2 | CObject => 3 | COneOf => 4 | CRef => 5 end%Z.

Definition desc := (cls * option key)%type.
Definition cache := list (key * desc).          (* newest first; a dict keeps the newest *)

Fixpoint clookup (k : key) (c : cache) : option desc :=
  match c with
  | [] => None
  | (k', d) :: r => if key_eqb k k' then Some d else clookup k r
  end.

(* Nodes built for a copybook entry carry title = the entry's name; for every entry but FILLER that is
   also its unique name.  Titled nodes WITHOUT $anchor are the $ref placeholders and the array of an
   elementary OCCURS item; the items object of an array has neither ($anchor, title) and is cached
   under a constant that nothing refers to. *)
Section Load.
  Variable filler : id -> bool.

  Definition title_key (k : key) : option key :=
    match k with
    | KName i => if filler i then None else Some k
    | KRedef _ => None
    end.

  Definition cache_key (s : js) : option key :=
    match js_anchor s with
    | Some k => Some k
    | None =>
        match s with
        | JRef k => title_key k
        | JArr None _ (JObj None (PCons k _ PNil)) => title_key k
        | JOdo None _ (JObj None (PCons k _ PNil)) => title_key k
        | _ => None
        end
    end.

  Definition register (s : js) (d : desc) (c : cache) : cache :=
    match cache_key s with Some k => (k, d) :: c | None => c end.

  (* a reference site: the name referred to and what it was bound to during the walk
     (None = deferred to resolve()) *)
  Definition site := (key * option desc)%type.

  Fixpoint lwalk (s : js) (c : cache) : res (cache * list site) :=
    match s with
    | JAtom a _ => Ok (register s (CAtomic, a) c, [])
    | JArr a _ its =>
        match lwalk its c with
        | Err e => Err e
        | Ok (c1, l1) => Ok (register s (CArray, a) c1, l1)
        end
    | JOdo a cn its =>
        match lwalk its c with
        | Err e => Err e
        | Ok (c1, l1) =>
            match clookup (KName cn) c1 with
            | None => Err ValueError
            | Some d => Ok (register s (CDepends, a) c1, l1 ++ [(KName cn, Some d)])
            end
        end
    | JObj a ps =>
        match lwalk_props ps c with
        | Err e => Err e
        | Ok (c1, l1) => Ok (register s (CObject, a) c1, l1)
        end
    | JOne a alts =>
        match alts with
        | ANil => Err KeyError                  (* an empty oneOf is falsy: falls through to source['type'] *)
        | _ =>
            match lwalk_alts alts c with
            | Err e => Err e
            | Ok (c1, l1) => Ok (register s (COneOf, a) c1, l1)
            end
        end
    | JRef k => Ok (register s (CRef, None) c, [(k, clookup k c)])
    end
  with lwalk_props (ps : props) (c : cache) : res (cache * list site) :=
    match ps with
    | PNil => Ok (c, [])
    | PCons _ s r =>
        match lwalk s c with
        | Err e => Err e
        | Ok (c1, l1) =>
            match lwalk_props r c1 with
            | Err e => Err e
            | Ok (c2, l2) => Ok (c2, l1 ++ l2)
            end
        end
    end
  with lwalk_alts (alts : jalts) (c : cache) : res (cache * list site) :=
    match alts with
    | ANil => Ok (c, [])
    | ACons s r =>
        match lwalk s c with
        | Err e => Err e
        | Ok (c1, l1) =>
            match lwalk_alts r c1 with
            | Err e => Err e
            | Ok (c2, l2) => Ok (c2, l1 ++ l2)
            end
        end
    end.

  (* resolve(): deferred references are looked up in the final cache *)
  Fixpoint resolve (c : cache) (l : list site) : res (list (key * desc)) :=
    match l with
    | [] => Ok []
    | (k, Some d) :: r => match resolve c r with Ok t => Ok ((k, d) :: t) | Err e => Err e end
    | (k, None) :: r =>
        match clookup k c with
        | None => Err ValueError
        | Some d => match resolve c r with Ok t => Ok ((k, d) :: t) | Err e => Err e end
        end
    end.

  (* from_json: every reference site in document order (the maxItemsDependsOn of an array after the
     sites inside its items) with the object it ends up bound to *)
  Definition load (s : js) : res (list (key * desc)) :=
    match lwalk s [] with
    | Err e => Err e
    | Ok (c, l) => resolve c l
    end.
End Load.
