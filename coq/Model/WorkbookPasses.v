(* Model of SEVERAL passes over the rows of ONE Sheet object, as the code is now (C03, companion of Model/Workbook.v).

   The calls:  sh = the Sheet that sheet_iter() yielded; the schema bound as in Model/Workbook.v
               (set_schema_loader(HeadingRowSchemaLoader()) / set_schema(...)), ONCE; then for every pass
                   None     rows = list(sh.rows())
                   Some k   rows = list(itertools.islice(sh.rows(), k))      (the iterator is then abandoned)
               and row.name(c).value() for the column names on the rows of that pass, before the next pass starts.

   What the source does (src/stingray/workbook.py, schema_instance.py, implementations.py):
     Sheet.row_iter             every call asks the unpacker for a NEW iterator: unpacker.instance_iter(sheet.name), runs
                                loader.header on it (the heading-row loader consumes its first instance and binds the
                                schema it builds; without an instance it returns None and the schema bound before STAYS),
                                then one Row per instance of loader.body.  A Row builds its navigator from the schema bound
                                at that moment.  A generator that delivered k rows to islice is suspended at its k-th yield
                                and never resumed; islice(it, 0) never starts it (nothing is read, nothing is bound).
     XLS / XLSX / ODS / Numbers unpackers
                                instance_iter(name) looks the sheet up in the parsed document and iterates its rows FROM THE
                                FIRST: every pass sees the whole sheet (IN-MEMORY formats).
     CSVUnpacker                instance_iter = csv.reader(self.the_file): a new reader over the SAME open file, which stands
                                where the pass before left it: after the records the reader of that pass consumed
     JSONUnpacker               for line in self.the_file: the same
     TextUnpacker               iter(self.the_file): the same
     EBCDIC.instance_iter       recfm_class(self.the_file, lrecl).record_iter(): a new RECFM reader over the same open
                                file.  RECFM_F reads lrecl bytes per record: the file stands after the last record
                                delivered.  RECFM_N reads 32768 bytes into its OWN buffer when it is created and tops the
                                buffer up after every used(): what the reader of an abandoned pass holds in its buffer is
                                lost to the next reader (FILE-BACKED formats: nothing ever seeks back to the start).
   Hence, for the file-backed formats, a later pass delivers rows of what the earlier passes left unread - for the
   heading-row loader the first of them consumed as a NEW heading row, so that the column names change as well.
   This is known finding K-second-pass-differs (Props/C03e.v).

   [row_iter_pass] reuses HeaderRow.sheet_row_iter (the rules of Gen/HeaderRowParams.v) for what a pass delivers;
   [source_left] is what the pass leaves of a source that is read on.  Approximation (in-memory formats only): the
   rows of a pass are computed whole and then cut to k, so an exception raised while a row AFTER the k-th is built
   would be reported by this model although the abandoned pass never meets it; with the glue rules the source has
   now building a row cannot raise (Proofs/WorkbookP.v rule_deliver). *)
From Coq Require Import ZArith NArith List Bool Arith.
Import ListNotations.
Require Import SR.Base.Res SR.Model.HeaderRow SR.Gen.RecfmParams SR.Model.Workbook.
Require SR.Model.Recfm SR.Model.Estruct.
Require Import SR.Spec.Transparency SR.Spec.TransparencyPasses.
Open Scope nat_scope.

(* for every Sheet: its name and, for every pass, what reading gave *)
Definition obs_passes := list (key * list rows_obs).

Definition take_obs (k : option nat) (o : rows_obs) : rows_obs :=
  match o with Ok rows => Ok (take_rows k rows) | Err e => Err e end.

(* ------------------------------------------------------------------ one pass of Sheet.row_iter *)
Definition kind_keep {I} (keep : body_pred -> I -> bool) (bk : body_kind) (x : I) : bool :=
  match bk with B_source => true | B_filter p => keep p x end.

(* the first k instances with p and what follows the k-th of them *)
Fixpoint take_kept {I} (p : I -> bool) (k : nat) (l : list I) {struct l} : list I * list I :=
  match l with
  | [] => ([], [])
  | x :: t =>
      match k with
      | O => ([], l)
      | S k' => if p x then let (a, r) := take_kept p k' t in (x :: a, r) else take_kept p k t
      end
  end.

Section RowIterPass.
Context {S I : Type}.
Variable keep : body_pred -> I -> bool.
Variable hdr : list I -> res (option S * list I).
Variable bk : body_kind.

(* what the pass delivers (the schema its rows are read with, the instances of its rows) and the schema bound to the
   Sheet afterwards (unchanged when the pass raised: the loaders of the source bind nothing before they can raise) *)
Definition row_iter_pass (k : option nat) (ps : option S) (src : list I) : res (option S * list I) * option S :=
  match k with
  | Some O => (Ok (ps, []), ps)
  | _ =>
      match sheet_row_iter keep hdr bk ps src with
      | Ok sr => (Ok (fst sr, take_rows k (snd sr)), fst sr)
      | Err e => (Err e, ps)
      end
  end.

(* what the pass leaves unread of a source that later iterators go on reading (an open file): nothing after a complete
   pass; after islice(it, n) what follows the n-th instance delivered (the instances header() consumed and the ones a
   filtering body() passed over are gone too); when header() raised, its first instance is gone *)
Definition source_left (k : option nat) (src : list I) : list I :=
  match k with
  | None => []
  | Some O => src
  | Some n =>
      match hdr src with
      | Ok hr => snd (take_kept (fun x => kind_keep keep bk x && kind_keep keep ri_rows x) n (snd hr))
      | Err _ => tl src
      end
  end.

(* the passes one after the other on one Sheet.  [reread] = true: every instance_iter starts from the first
   instance again (the parsed document of an in-memory format); false: it goes on in the open file *)
Fixpoint run_passes (reread : bool) (pat : passes) (ps : option S) (src : list I) : list (res (option S * list I)) :=
  match pat with
  | [] => []
  | k :: t =>
      let (o, ps') := row_iter_pass k ps src in
      o :: run_passes reread t ps' (if reread then src else source_left k src)
  end.
End RowIterPass.

(* ------------------------------------------------------------------ heading-row binding: list-of-cells formats *)
Definition view_header (probes : list key) (o : res (option schema * sheet)) : rows_obs :=
  match o with
  | Err e => Err e
  | Ok (None, _) => Ok []                                   (* no schema was bound: there are no rows *)
  | Ok (Some s, rows) => Ok (map (fun r => map (fun k => nav_name s k r) probes) rows)
  end.

Definition header_passes (reread : bool) (src : sheet) (probes : list key) (pat : passes) : list rows_obs :=
  map (view_header probes) (run_passes keep_row (header HeadingRow) (body_kind_of HeadingRow) reread pat None src).

(* one Sheet of a workbook whose unpacker cannot find the sheet: the exception leaves every pass that starts the
   generator *)
Definition failed_passes (e : exn) (pat : passes) : list rows_obs :=
  map (fun k => match k with Some O => Ok [] | _ => Err e end) pat.

(* csv.reader over the open file reads on; the parsed documents are read again *)
Definition reread_content (c : content) : bool :=
  match c with C_single _ | C_json _ => false | C_multi _ _ | C_numbers _ => true end.

Definition sheet_passes_header (c : content) (name : key) (probes : list key) (pat : passes) : list rows_obs :=
  match wb_instances c name with
  | Ok src => header_passes (reread_content c) src probes pat
  | Err e => failed_passes e pat
  end.

Fixpoint sheets_passes_header (c : content) (names : list key) (probes : list (list key)) (i : nat) (pat : passes)
  : obs_passes :=
  match names with
  | [] => []
  | n :: t => (n, sheet_passes_header c n (probes_at probes i) pat) :: sheets_passes_header c t probes (S i) pat
  end.

Definition read_header_passes (c : content) (probes : list (list key)) (pat : passes) : obs_passes :=
  sheets_passes_header c (sheet_names c) probes 0 pat.

(* ------------------------------------------------------------------ explicit binding: set_schema(schema), once *)
(* the do-nothing loader: SchemaLoader.header (None, nothing consumed) and SchemaLoader.body *)
Definition preset_passes {S I} (keep : body_pred -> I -> bool) (s : S) (src : list I) (pat : passes)
  : list (res (list I)) :=
  map (fun o => bind o (fun sr => Ok (snd sr)))
      (run_passes keep (fun it => Ok (None, it)) body_base false pat (Some s) src).

Definition read_json_passes (c : content) (probes : list (list key)) (pat : passes) : obs_passes :=
  map (fun n =>
         (n, match json_instances c with
             | Err e => failed_passes e pat
             | Ok docs =>
                 let ks := probes_at probes 0 in
                 map (fun o => bind o (fun rows => Ok (map (fun d => map (fun k => dnav_name (hand_schema ks) k d) ks) rows)))
                     (preset_passes keep_nonempty (hand_schema ks) docs pat)
             end))
      (sheet_names c).

Definition facade_passes (f : fmt) (c : content) (probes : list (list key)) (pat : passes) : obs_passes :=
  match f with
  | F_NDJSON => read_json_passes c probes pat
  | _ => read_header_passes c probes pat
  end.

Definition open_passes {image : Type} (parse : fmt -> image -> content) (f : fmt) (img : image)
  (probes : list (list key)) (pat : passes) : res obs_passes :=
  bind (reader_for f) (fun g => Ok (facade_passes f (parse g img) probes pat)).

(* ---- COBOL_Text_File ---- *)
Definition fixed_view (l : layout) (probes : list key) (o : res (list (list N))) : rows_obs :=
  bind o (fun rows => Ok (map (fun line => map (fun k => text_value l k line) probes) rows)).

Definition read_fixed_passes (file : list N) (l : layout) (probes : list key) (pat : passes) : obs_passes :=
  [([], map (fixed_view l probes) (preset_passes keep_nonempty l (text_lines file) pat))].

(* ---- COBOL_EBCDIC_File ----
   COBOL_EBCDIC_Sheet.row_iter does not go through the loader.  One pass over the bytes [s] the open file still holds:
   the records handed to Row, and the bytes left in the file.
   RECFM_F: Recfm.F_pass (record_iter run to its end, or stopped after its k-th yield).
   RECFM_N: a NEW reader - its __init__ reads the buffer; for islice(it, k) the consumer announces location.end after
   each of the first k - 1 rows (the k-th yield is never resumed, so its used() is not called and no top-up follows);
   whatever the reader holds in its buffer is lost with it.  A complete pass prepares length + 1 announcements as
   Workbook.ebcdic_records does. *)
Definition ebcdic_pass (r : recfm) (kind : N) (wb_lrecl : option nat) (l : layout) (k : option nat) (s : list N)
  : res (list (list N)) * list N :=
  match k with
  | Some O => (Ok [], s)
  | _ =>
      match r with
      | RECFM_F =>
          let '(items, fin, rem) := Recfm.F_pass kind (Z.of_nat (sheet_lrecl wb_lrecl l)) (0%N, k) s in
          (match fin with Recfm.Done | Recfm.More => Ok items | Recfm.Raised e => Err e | Recfm.Hang => Err OtherError end,
           rem)
      | RECFM_N =>
          let lens := match k with
                      | None => repeat (layout_end l) (S (length s))
                      | Some n => repeat (layout_end l) (pred n)
                      end in
          let '(items, fin, st) := Recfm.N_read kind s lens in
          (match fin, k with
           | Recfm.Done, _ => Ok items
           | Recfm.More, Some _ => Ok items
           | Recfm.Raised e, _ => Err e
           | _, _ => Err OtherError
           end,
           Recfm.rest st)
      end
  end.

Fixpoint ebcdic_passes (r : recfm) (kind : N) (wb_lrecl : option nat) (l : layout) (pat : passes) (s : list N)
  : list (res (list (list N))) :=
  match pat with
  | [] => []
  | k :: t => let (o, rem) := ebcdic_pass r kind wb_lrecl l k s in o :: ebcdic_passes r kind wb_lrecl l t rem
  end.

Definition ebcdic_view (l : layout) (probes : list key) (o : res (list (list N))) : rows_obs :=
  bind o (fun recs =>
  bind (rows_plain (Some l) recs) (fun rows =>
  Ok (map (fun rec => map (fun k => ebcdic_value l k rec) probes) rows))).

Definition read_ebcdic_passes (r : recfm) (kind : N) (wb_lrecl : option nat) (file : list N) (l : layout)
  (probes : list key) (pat : passes) : obs_passes :=
  [([], map (ebcdic_view l probes) (ebcdic_passes r kind wb_lrecl l pat file))].

(* ------------------------------------------------------------------ what the property expects of every pass:
   the table's rows from the first on, by name - whatever was read before (Spec/TransparencyPasses.v [demanded]) *)
Definition expected_passes (W : workbook) (pat : passes) : obs_passes :=
  map (fun s => (fst s, map (fun k => take_obs k (expected_rows (snd s))) pat)) W.

(* the formats whose unpacker holds the parsed document *)
Definition in_memory (f : fmt) : bool :=
  match f with F_XLSX | F_ODS | F_XLS | F_NUMBERS => true | _ => false end.
Definition file_backed (f : fmt) : bool := negb (in_memory f).
