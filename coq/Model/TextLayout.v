(* The bridge between the two halves of the framework that speak about copybooks:

     Model/Pipeline.v   the parser on RAW TEXT: schemas_of_text text = the JSON documents (jdoc: every keyword, strings)
     Model/Layout.v     navigation: build t : js from a record description t : item whose elementary items carry their
                        WIDTH and whose names are identifiers; LocationMaker.walk / NDNav on js

   Nothing connected them: the documents of Pipeline were never navigated, and the trees of Layout never came from text.
   This file defines, without proofs:

     name_id        the identifier of a data name: an injective numbering of strings (Proofs/TextLayoutP.v name_id_inj), so
                    that a path of NAMES is a path of Spec/Layout.v steps
     layout_of_doc  what the loader and LocationMaker read of a document: the tree js.  Per object, in the order of
                    SchemaMaker.from_json's tests:  $ref  ->  JRef;  oneOf  ->  JOne;  type array  ->  JArr (maxItems) or
                    JOdo (maxItemsDependsOn.$ref);  type object  ->  JObj over the properties in document order;  anything else
                    is atomic and its WIDTH is what EBCDIC.calcsize makes of the object's own cobol keyword: calcsize_text,
                    estruct's second parse of the entry text (Model/Pipeline.v) - not maxLength, which the elementary OCCURS
                    item does not even have.  $anchor is kept; a key or anchor REDEFINES-x is the union key of x.
     item_of        the record description (Spec/Layout.v item) of a tree of the annotated forest xf that Model/Pipeline.v
                    computes the documents from: names numbered by name_id (unique_name: FILLER-n for fillers), OCCURS /
                    DEPENDING ON from the clause values, REDEFINES target from the entry, every elementary width
                    calcsize_text of the entry's cobol text
     bridge_ok      the decidable domain on which the document IS the built tree (C07c_documents_are_built_trees):
                    sizes and type keywords exist, an elementary OCCURS item has no subordinate entries, siblings differ, a
                    redefined item is marked exactly when a sibling names it and is neither a FILLER nor itself a redefiner,
                    nothing is redefined inside an OCCURS group (known finding C07-K2: KeyError there)
     kind_of_cobol  USAGE / PICTURE of an elementary item as estruct.unpack sees them in the cobol text: the field kind of
                    Spec/Record.v (for the value theorems)
     (text_layout_ok, text_values_ok: everything the composed theorems need, as ONE decidable condition on the entries es of a
      copybook, are defined at the head of Proofs/TextLayoutP.v: they use wf / siblings_distinct of the layout proofs, and this
      file, which the judge of the stream text-nav imports, depends on no proof file)
     layouts_of_text    schemas_of_text followed by layout_of_doc: the layouts computed from raw text
   Strings are lists of code points. *)
From Coq Require Import NArith List Bool Arith.
Import ListNotations.
Require Import SR.Base.Res.
Require SR.Model.Structure SR.Model.Picture SR.Model.Estruct.
Require Import SR.Model.Pipeline SR.Spec.Copybook.
Require Import SR.Spec.Layout SR.Model.Layout.
Open Scope N_scope.

Local Notation str := SR.Model.Pipeline.str.
Local Notation jdoc := SR.Model.Pipeline.jdoc.
Local Notation DObj := SR.Model.Pipeline.JObj.
Local Notation DArr := SR.Model.Pipeline.JArr.
Local Notation DStr := SR.Model.Pipeline.JStr.
Local Notation DInt := SR.Model.Pipeline.JInt.

(* ------------------------------------------------------------------ names as identifiers *)
(* c zero bits below p *)
Fixpoint shl (c : nat) (p : positive) : positive :=
  match c with O => p | S k => xO (shl k p) end.

(* the characters from the left: each one a run of (code point) zero bits under a one bit *)
Fixpoint name_pos (s : str) : positive :=
  match s with
  | [] => xH
  | c :: r => shl (N.to_nat c) (xI (name_pos r))
  end.

Definition name_id (s : str) : id := Npos (name_pos s).

(* a property key or anchor: REDEFINES-x is the key of the union of x *)
Definition key_of (s : str) : key :=
  if is_pre SR.Model.Structure.REDEFINES_dash s
  then KRedef (name_id (skipn (length SR.Model.Structure.REDEFINES_dash) s))
  else KName (name_id s).

(* a path as a caller writes it: names and indices *)
Inductive nstep := NName (s : str) | NIndex (i : nat).
Definition step_of (s : nstep) : step := match s with NName n => PName (name_id n) | NIndex i => PIndex i end.
Definition steps_of (p : list nstep) : list step := map step_of p.

(* ------------------------------------------------------------------ the layout content of a document *)
(* a document read three ways: as a schema, as the value of properties, as the value of oneOf *)
Record view := mkview { v_js : option js; v_props : option props; v_alts : option jalts }.
Definition no_view : view := mkview None None None.

Fixpoint sfind (key : str) (l : list (str * view)) : option view :=
  match l with
  | [] => None
  | (k, v) :: r => if SR.Model.Structure.str_eqb k key then Some v else sfind key r
  end.

Fixpoint props_view (subs : list (str * view)) : option props :=
  match subs with
  | [] => Some PNil
  | (k, v) :: r =>
      match v_js v, props_view r with
      | Some s, Some p => Some (PCons (key_of k) s p)
      | _, _ => None
      end
  end.

Fixpoint alts_view (l : list view) : option jalts :=
  match l with
  | [] => Some ANil
  | v :: r =>
      match v_js v, alts_view r with
      | Some s, Some a => Some (ACons s a)
      | _, _ => None
      end
  end.

Definition anchor_view (kvs : list (str * jdoc)) : option key :=
  match jfind k_anchor kvs with Some (DStr s) => Some (key_of s) | _ => None end.

(* the atomic case: the width is the decoder's size of the object's own cobol text *)
Definition atom_view (kvs : list (str * jdoc)) : option js :=
  match jfind k_cobol kvs with
  | Some (DStr c) => match calcsize_text c with ROk n => Some (JAtom (anchor_view kvs) (N.to_nat n)) | _ => None end
  | _ => None
  end.

Definition array_view (kvs : list (str * jdoc)) (subs : list (str * view)) : option js :=
  match sfind k_items subs with
  | Some v =>
      match v_js v with
      | Some its =>
          match jfind k_maxItemsDependsOn kvs with
          | Some (DObj [(k, DStr (h :: c))]) =>
              if SR.Model.Structure.str_eqb k k_ref && (h =? 35) then Some (JOdo (anchor_view kvs) (name_id c) its) else None
          | Some _ => None
          | None =>
              match jfind k_maxItems kvs with
              | Some (DInt n) => Some (Layout.JArr (anchor_view kvs) (N.to_nat n) its)
              | _ => None
              end
          end
      | None => None
      end
  | None => None
  end.

Definition schema_view (kvs : list (str * jdoc)) (subs : list (str * view)) : option js :=
  match jfind k_ref kvs with
  | Some (DStr (h :: tgt)) => if h =? 35 then Some (JRef (key_of tgt)) else None
  | Some _ => None
  | None =>
      match sfind k_oneOf subs with
      | Some v => option_map (JOne (anchor_view kvs)) (v_alts v)
      | None =>
          match jfind k_type kvs with
          | Some (DStr ty) =>
              if SR.Model.Structure.str_eqb ty v_array then array_view kvs subs
              else if SR.Model.Structure.str_eqb ty v_object then
                match sfind k_properties subs with
                | Some v => option_map (Layout.JObj (anchor_view kvs)) (v_props v)
                | None => None
                end
              else atom_view kvs
          | _ => atom_view kvs
          end
      end
  end.

Fixpoint view_of (d : jdoc) : view :=
  match d with
  | DObj kvs =>
      let subs := map (fun kv => (fst kv, view_of (snd kv))) kvs in
      mkview (schema_view kvs subs) (props_view subs) None
  | DArr l => mkview None None (alts_view (map view_of l))
  | _ => no_view
  end.

Definition layout_of_doc (d : jdoc) : option js := v_js (view_of d).

(* ------------------------------------------------------------------ the record description of an annotated tree *)
Definition width_of (d : SR.Model.Structure.dde) : nat :=
  match calcsize_text (SR.Model.Structure.cobol_of d) with ROk n => N.to_nat n | _ => O end.

Definition occ_of (x : info) : occ :=
  match i_dep x with
  | Some dep => Odo (name_id dep)
  | None => match i_occ x with Some ds => Times (N.to_nat (SR.Model.Picture.count_value ds)) | None => Once end
  end.

Definition redef_of (d : SR.Model.Structure.dde) : option id :=
  option_map name_id (SR.Model.Structure.eredef (SR.Model.Structure.de d)).

Fixpoint item_of (t : xtree) : item :=
  match t with
  | XNode d _ x kids =>
      let i := name_id (SR.Model.Structure.du d) in
      if SR.Model.Structure.eocc (SR.Model.Structure.de d) then
        if SR.Model.Structure.epic (SR.Model.Structure.de d) then Elem i (width_of d) (occ_of x) (redef_of d)
        else Group i (occ_of x) (redef_of d) (items_of kids)
      else
        match kids with
        | XNil => Elem i (width_of d) Once (redef_of d)
        | XCons _ _ => Group i Once (redef_of d) (items_of kids)
        end
  end
with items_of (ks : xforest) : items :=
  match ks with XNil => INil | XCons k r => ICons (item_of k) (items_of r) end.

(* ------------------------------------------------------------------ the domain of the bridge *)
Definition xbased (t : xtree) : bool := match t with XNode _ b _ _ => b end.
Definition xredef (t : xtree) : option str := SR.Model.Structure.eredef (SR.Model.Structure.de (xdde t)).
Definition xuname (t : xtree) : str := SR.Model.Structure.du (xdde t).

Fixpoint xtargets (ks : xforest) : list str :=
  match ks with
  | XNil => []
  | XCons k r => match xredef k with Some t => t :: xtargets r | None => xtargets r end
  end.

Fixpoint xunames (ks : xforest) : list str :=
  match ks with XNil => [] | XCons k r => xuname k :: xunames r end.

Fixpoint nodup_strs (l : list str) : bool :=
  match l with [] => true | a :: r => negb (existsb (SR.Model.Structure.str_eqb a) r) && nodup_strs r end.

(* the children of a group that is not a table, left to right; bases = the earlier children marked as redefined.
   A child that redefines names one of them and is not itself marked; any other child is marked exactly when a LATER sibling
   names it, and then it is no FILLER (its name is its unique name) *)
Fixpoint kids_union_ok (bases : list str) (ks : xforest) : bool :=
  match ks with
  | XNil => true
  | XCons k r =>
      match xredef k with
      | Some t => negb (xbased k) && existsb (SR.Model.Structure.str_eqb t) bases && kids_union_ok bases r
      | None =>
          Bool.eqb (xbased k) (existsb (SR.Model.Structure.str_eqb (xuname k)) (xtargets r))
          && (negb (xbased k) || SR.Model.Structure.str_eqb (SR.Model.Structure.dde_name (SR.Model.Structure.de (xdde k))) (xuname k))
          && kids_union_ok (if xbased k then xuname k :: bases else bases) r
      end
  end.

(* nothing is redefined here (the children of an OCCURS group) *)
Fixpoint kids_plain (ks : xforest) : bool :=
  match ks with
  | XNil => true
  | XCons k r => negb (xbased k) && negb (has_some (xredef k)) && kids_plain r
  end.

Definition is_rok {T : Type} (r : R T) : bool := match r with ROk _ => true | _ => false end.

Fixpoint bridge_ok (t : xtree) : bool :=
  match t with
  | XNode d _ x kids =>
      negb (is_pre SR.Model.Structure.REDEFINES_dash (SR.Model.Structure.du d)) &&
      if SR.Model.Structure.eocc (SR.Model.Structure.de d) then
        is_rok (max_items_doc x)
        && (if SR.Model.Structure.epic (SR.Model.Structure.de d)
            then is_rok (json_type_kvs x) && is_rok (calcsize_text (SR.Model.Structure.cobol_of d))
                 && match kids with XNil => true | XCons _ _ => false end
            else kids_plain kids && nodup_strs (xunames kids) && bridge_ok_f kids)
      else
        match kids with
        | XNil => is_rok (json_type_kvs x) && is_rok (calcsize_text (SR.Model.Structure.cobol_of d))
        | XCons _ _ => kids_union_ok [] kids && nodup_strs (xunames kids) && bridge_ok_f kids
        end
  end
with bridge_ok_f (ks : xforest) : bool :=
  match ks with XNil => true | XCons k r => bridge_ok k && bridge_ok_f r end.

(* ------------------------------------------------------------------ from the entries of a copybook, from its text *)
(* the forest structure() builds of the entries (C07_structure characterises it), with the clause values attached *)
Definition forest_of_entries (es : list centry) : option (list xtree) :=
  match SR.Model.Structure.structure (map spec_entry es) with
  | Ok f => annot_forest f (kept_infos (map spec_info es))
  | Err _ => None
  end.

(* the record descriptions of a copybook: one per 01 level *)
Definition records_of_entries (es : list centry) : option (list item) := option_map (map item_of) (forest_of_entries es).

(* the domain of the bridge, as a condition on the entries: structure() accepts them, no item is named like one of its
   ancestors and no name starts with REDEFINES- (C07b_end_to_end), every tree is in the bridge domain *)
Definition bridge_domain (es : list centry) : bool :=
  match forest_of_entries es with
  | Some xf => forallb (names_wf []) xf && forallb bridge_ok xf
  | None => false
  end.

(* no OCCURS DEPENDING ON: no counter is ever consulted *)
Definition no_counters : env := fun _ => O.

(* the annotated forest Model/Pipeline.v computes the documents of a TEXT from (docs_of_sentences) *)
Definition forest_of_text (text : str) : option (list xtree) :=
  match sentences_of_text text with
  | Ok ss => match forest_of ss with
             | ROk (f, xs) => annot_forest f (kept_infos xs)
             | _ => None
             end
  | Err _ => None
  end.

(* list(schema_iter(text)), each document read by the loader / LocationMaker *)
Definition layouts_of_text (text : str) : option (list js) :=
  match schemas_of_text text with
  | Done (Ok docs) => map_opt layout_of_doc docs
  | _ => None
  end.

(* where navigation along p ends in record number k of the text, for the record instance r: Ok (start, end) or the exception *)
Definition located {B : Type} (text : str) (k : nat) (dcount : list B -> nat) (r : list B) (p : list step) : option (res (nat * nat)) :=
  match layouts_of_text text with
  | Some ss =>
      match nth_error ss k with
      | Some s =>
          Some (match nav_of dcount r s with
                | Ok v0 => match nav_path dcount r v0 p with
                           | Ok nv => Ok (lstart (n_loc nv), lend (n_loc nv))
                           | Err e => Err e
                           end
                | Err e => Err e
                end)
      | None => None
      end
  | None => None
  end.

(* ------------------------------------------------------------------ USAGE and PICTURE as the decoder sees them *)
(* estruct.unpack(format, bytes): Representation.parse(format) - the same scan as calcsize (est_loop over est_items) - then the
   usage chain; a picture is numeric when it has digit positions 9 only (with S, V), text when its positions are X / A.
   The usage numbers are those of Gen/EstructParams.v (the position of the word in the decoder's pattern). *)
Require SR.Spec.Record SR.Spec.Encode.

Definition all_X (t : list N) : bool := forallb (fun c => c =? 88) t.

(* the first spelling of the usage family in the decoder's own tuples (estruct.unpack compares the usage word with them):
   two spellings of one family decode alike, so the field kind names the family by one representative *)
Definition canon_usage (u : N) : N :=
  if SR.Model.Estruct.mem u SR.Gen.EstructParams.unpack_display then hd u SR.Gen.EstructParams.unpack_display
  else if SR.Model.Estruct.mem u SR.Gen.EstructParams.unpack_packed then hd u SR.Gen.EstructParams.unpack_packed
  else if SR.Model.Estruct.mem u SR.Gen.EstructParams.unpack_binary then hd u SR.Gen.EstructParams.unpack_binary
  else 99.

(* (usage, signed, integer digits, fraction digits) of a numeric picture S?9..V9.. ; the length of a picture of X positions *)
Inductive shape := ShNum (u : N) (signed : bool) (m n : nat) | ShText (u : N) (k : nat) | ShOther.

Definition shape_body (u : N) (es : list SR.Model.Picture.elt) : shape :=
  match SR.Model.Picture.size_loop es 0 with
  | Ok size =>
      let g := SR.Model.Picture.digit_groups es in
      let signed := SR.Model.Picture.list_N_eqb (SR.Model.Picture.g_sign g) [83] in
      if SR.Model.Picture.zoned_decimal es size
         && (signed || SR.Model.Picture.list_N_eqb (SR.Model.Picture.g_sign g) [])
      then ShNum u signed (length (SR.Model.Picture.g_int g)) (length (SR.Model.Picture.g_frac g))
      else
        match es with
        | [SR.Model.Picture.E SR.Model.Picture.KDigit (c :: t)] => if all_X (c :: t) then ShText u (length (c :: t)) else ShOther
        | _ => ShOther
        end
  | Err _ => ShOther
  end.

(* Representation.parse(format): the same scan as calcsize (est_loop over est_items) *)
Definition shape_of_cobol (cobol : str) : shape :=
  match est_loop (est_items cobol) usage_DISPLAY [] with
  | ROk (u, es) => shape_body u es
  | _ => ShOther
  end.

(* estruct.unpack(cobol text, bytes) on the pictures Model/Estruct.v speaks about (OtherError marks the others) *)
Definition unpack_cobol (cobol : str) (bs : list N) : res SR.Model.Estruct.pyval :=
  match shape_of_cobol cobol with
  | ShNum u s m n => SR.Model.Estruct.unpack u (SR.Model.Estruct.mkpic s m n) bs
  | ShText u k => SR.Model.Estruct.unpack_x u k bs
  | ShOther => Err OtherError
  end.

Definition kind_of_shape (sh : shape) : option SR.Spec.Record.fkind :=
  match sh with
  | ShNum u s m n =>
      if SR.Model.Estruct.mem u SR.Gen.EstructParams.unpack_display then Some (SR.Spec.Record.KZoned s m n)
      else if SR.Model.Estruct.mem u SR.Gen.EstructParams.unpack_packed then Some (SR.Spec.Record.KPacked (canon_usage u) s m n)
      else if SR.Model.Estruct.mem u SR.Gen.EstructParams.unpack_binary then Some (SR.Spec.Record.KBinary (canon_usage u) s m n)
      else None
  | ShText u k => if SR.Model.Estruct.mem u SR.Gen.EstructParams.unpack_display then Some (SR.Spec.Record.KText k) else None
  | ShOther => None
  end.

Definition kind_of_cobol (cobol : str) : option SR.Spec.Record.fkind := kind_of_shape (shape_of_cobol cobol).

(* the decoder of Model/RecordValue.v field_dec for one kind *)
Definition dec_kind (k : SR.Spec.Record.fkind) (bs : list N) : res SR.Model.Estruct.pyval :=
  match k with
  | SR.Spec.Record.KPacked u s m n => SR.Model.Estruct.unpack u (SR.Model.Estruct.mkpic s m n) bs
  | SR.Spec.Record.KZoned s m n => SR.Model.Estruct.unpack SR.Spec.Encode.display_spelling (SR.Model.Estruct.mkpic s m n) bs
  | SR.Spec.Record.KBinary u s m n => SR.Model.Estruct.unpack u (SR.Model.Estruct.mkpic s m n) bs
  | SR.Spec.Record.KText k => SR.Model.Estruct.unpack_x SR.Spec.Encode.display_spelling k bs
  end.

(* the kinds of the elementary items of a tree, by identifier *)
Fixpoint kind_table (t : xtree) : list (id * SR.Spec.Record.fkind) :=
  match t with
  | XNode d _ _ kids =>
      let here := match kind_of_cobol (SR.Model.Structure.cobol_of d) with
                  | Some k => [(name_id (SR.Model.Structure.du d), k)]
                  | None => []
                  end in
      if SR.Model.Structure.eocc (SR.Model.Structure.de d) then
        if SR.Model.Structure.epic (SR.Model.Structure.de d) then here else kind_table_f kids
      else match kids with XNil => here | XCons _ _ => kind_table_f kids end
  end
with kind_table_f (ks : xforest) : list (id * SR.Spec.Record.fkind) :=
  match ks with XNil => [] | XCons k r => kind_table k ++ kind_table_f r end.

Definition table_kinds (tb : list (id * SR.Spec.Record.fkind)) : SR.Spec.Record.kinds :=
  fun i => match find (fun p => N.eqb (fst p) i) tb with Some p => snd p | None => SR.Spec.Record.KText 0 end.

Definition kinds_of (t : xtree) : SR.Spec.Record.kinds := table_kinds (kind_table t).

(* every elementary item has a kind, and all names of the record differ (the decoders are indexed by name) *)
Fixpoint kinds_defined (t : xtree) : bool :=
  match t with
  | XNode d _ _ kids =>
      let here := has_some (kind_of_cobol (SR.Model.Structure.cobol_of d)) in
      if SR.Model.Structure.eocc (SR.Model.Structure.de d) then
        if SR.Model.Structure.epic (SR.Model.Structure.de d) then here else kinds_defined_f kids
      else match kids with XNil => here | XCons _ _ => kinds_defined_f kids end
  end
with kinds_defined_f (ks : xforest) : bool :=
  match ks with XNil => true | XCons k r => kinds_defined k && kinds_defined_f r end.

