(* C10, companion model layer: the navigator constructor when the OCCURS DEPENDING ON counter may fail to decode.

     schema_instance.py  LocationMaker.walk, case DependsOnArraySchema:
         maxItems = int(self.anchors[max_ref_name].value(self.instance))
     .value() of the counter's AtomicLocation hands the counter's bytes to the unpacker (estruct.unpack for EBCDIC,
     Decimal(text) for TextUnpacker), and that call RAISES on bytes that are no number (a zoned digit above 9, a packed
     nibble above 9, text that is no decimal literal, a binary field cut short by the end of the record).  The
     exception leaves walk, from_instance and unpacker.nav: no navigator exists for that record, and Row.__init__
     (workbook.py), which builds the navigator eagerly, raises inside the row generator.

   Model/Layout.v and Model/LayoutValue.v take the counter decoder as a TOTAL function dcount : list B -> nat, so such a
   record is inexpressible there.  This file adds the PARTIAL decoder

       dcountp : list B -> res nat          (res / exn of Base/Res.v)

   and is tied to the existing model in TWO ways (both proved, Proofs/LayoutPartialP.v):

   (1) walkvp / walkvp_props / walkvp_alts are a res-valued COPY of LayoutValue.walkv: the same rules, read from
       Gen/LayoutParams.v, evaluated in the same order; the only difference is the ODO case, where the count is
       dcountp (counter bytes) and an Err e there is the result of the whole walk (wodo_countp).  vnav_ofp, vnav_indexp
       and vnav_pathp are unpacker.nav, NDNav.index (which re-walks one occurrence with the same unpacker) and a path of
       steps over that walk; NDNav.name does not use the unpacker and is LayoutValue.vnav_name itself.

   (2) a PRE-PASS over the existing total walk: cpos dcount r s st an lists, in walk order, the (start, size) of every
       counter field the walk of LayoutValue.walkv consults (it calls walkv itself to thread offsets and anchors);
       ctrs are the byte slices at those places; first_err is the exception of the first of them dcountp rejects;
       walk_prepass returns that exception, or else what the existing walk returns under the total completion
       dtot dcountp (a counter that does not decode counts 0 there - never looked at, since the walk has failed).
       Proofs/LayoutPartialP.v: walkvp = walk_prepass, for every schema, start and anchors (walkvp_prepass).

   Negative counts: Python's int() of a counter with a negative sign is negative.  Since the fix of finding
   K-negative-counter LocationMaker.walk refuses such a count ( if maxItems < 0: raise ValueError , read from the source into
   Gen/LayoutParams.odo_negative_refused): the exception leaves the walk exactly as a decoder exception does, so the concrete
   decoders below return Err ValueError for a negative value when that guard is there (count_of_int).  Without the guard the
   code builds an ArrayLocation of negative size (fields after the table move BACKWARDS); res nat cannot hold that, the
   decoders then clamp to 0 as Model/ZonedCounter.v does and no theorem is claimed (the walk over Python's integers,
   Model/Counters.v and Props/C06e.v, is the model of that case).  The generators of C10 never produce a negative counter.
   A count above the declared maximum (OCCURS 1 TO 5 with a counter of 7) is accepted by the code as it is by the model.

   No proofs in this file. *)
From Coq Require Import List Arith NArith ZArith Bool.
Import ListNotations.
Require Import SR.Base.Res SR.Base.Dec SR.Spec.Layout SR.Model.LayoutRule SR.Gen.LayoutParams SR.Model.Layout SR.Model.LayoutValue.
Require Import SR.Model.Estruct SR.Model.ZonedCounter.
Open Scope nat_scope.

Section WalkP.
  Variable B : Type.
  Variable dcountp : list B -> res nat.   (* int(unpacker.value(counter schema, bytes)), which may raise *)
  Variable r : list B.                    (* the record instance *)

  (* the item count of a DependsOnArraySchema whose maxItemsDependsOn names c: LayoutValue.wodo_count with the partial decoder *)
  Definition wodo_countp (c : id) (an : wanchors) : res nat :=
    match odo_count_src with
    | CsAnchorValue =>
        match wlookup (KName c) an with
        | None => Err KeyError
        | Some (WAtom _ cst csz) => dcountp (slice r cst (cst + csz))
        | Some _ => Err TypeError
        end
    | CsAttrMaxItems => Ok 0
    end.

  (* LocationMaker.walk: LayoutValue.walkv, case by case; only the ODO count differs *)
  Fixpoint walkvp (s : js) (st : nat) (an : wanchors) : res (wloc * wanchors) :=
    match s with
    | JAtom a sz =>
        match dispatch CAtomic with
        | Some CAtomic =>
            let v := env_atom st sz in
            let l := WAtom a (loc_start (eval v atom_start) (eval v atom_end)) (loc_size (eval v atom_start) (eval v atom_end)) in
            Ok (l, wpost_reg a l an)
        | _ => Err DesignError
        end
    | JArr a n its =>
        match dispatch CArray with
        | Some CArray =>
            match arr_count n with
            | Err e => Err e
            | Ok cnt =>
                match walkvp its (eval (env_arr st 0 cnt) arr_item_start) an with
                | Err e => Err e
                | Ok (sub, an1) =>
                    let l := warr_loc arr_start arr_end arr_item_size arr_item_count st sub cnt its in Ok (l, wpost_reg a l an1)
                end
            end
        | _ => Err DesignError
        end
    | JOdo a c its =>
        match dispatch CDependsOn with
        | Some CDependsOn =>
            match wodo_countp c an with
            | Err e => Err e
            | Ok cnt =>
                match walkvp its (eval (env_arr st 0 cnt) odo_item_start) an with
                | Err e => Err e
                | Ok (sub, an1) =>
                    let l := warr_loc odo_start odo_end odo_item_size odo_item_count st sub cnt its in Ok (l, wpost_reg a l an1)
                end
            end
        | Some CArray =>
            match odo_as_arr_count with
            | Err e => Err e
            | Ok cnt =>
                match walkvp its (eval (env_arr st 0 cnt) arr_item_start) an with
                | Err e => Err e
                | Ok (sub, an1) =>
                    let l := warr_loc arr_start arr_end arr_item_size arr_item_count st sub cnt its in Ok (l, wpost_reg a l an1)
                end
            end
        | _ => Err DesignError
        end
    | JObj a ps =>
        match dispatch CObject with
        | Some CObject =>
            match walkvp_props ps (eval (env_start st) obj_first_offset) an with
            | Err e => Err e
            | Ok (pls, off, an1) =>
                let v := env_obj st off in
                let l := WObj (loc_start (eval v obj_start) (eval v obj_end)) (wobj_size (eval v obj_start) (eval v obj_end) pls) pls in
                Ok (l, wpost_reg a l an1)
            end
        | _ => Err DesignError
        end
    | JOne a alts =>
        match dispatch COneOf with
        | Some COneOf =>
            match alts, agg_empty one_agg with
            | ANil, Err e => Err e
            | _, _ =>
                match walkvp_alts alts (eval (env_start st) one_alt_start) an with
                | Err e => Err e
                | Ok (als, an1) =>
                    let v := env_one st (wagg_alts one_agg als) in
                    let l := WOne (loc_start (eval v one_start) (eval v one_end)) (loc_size (eval v one_start) (eval v one_end)) als in
                    Ok (l, wpost_reg a l an1)
                end
            end
        | _ => Err DesignError
        end
    | JRef k =>
        match dispatch CRefTo with
        | Some CRefTo =>
            let v := env_start st in Ok (WRef (loc_start (eval v ref_start) (eval v ref_end)) k, an)
        | _ => Err DesignError
        end
    end
  with walkvp_props (ps : props) (off : nat) (an : wanchors) : res (wprops * nat * wanchors) :=
    match ps with
    | PNil => Ok (WPNil, off, an)
    | PCons k p rest =>
        match walkvp p (eval (env_off off) obj_child_start) an with
        | Err e => Err e
        | Ok (pl, an1) =>
            match walkvp_props rest (eval (env_step off (wsize pl)) obj_step) (wloop_reg (js_anchor p) pl an1) with
            | Err e => Err e
            | Ok (rl, off', an2) => Ok (WPCons k pl rl, off', an2)
            end
        end
    end
  with walkvp_alts (alts : jalts) (st : nat) (an : wanchors) : res (walts * wanchors) :=
    match alts with
    | ANil => Ok (WANil, an)
    | ACons s rest =>
        match walkvp s st an with
        | Err e => Err e
        | Ok (l, an1) =>
            match walkvp_alts rest st an1 with
            | Err e => Err e
            | Ok (ls, an2) => Ok (WACons l ls, an2)
            end
        end
    end.

  (* LocationMaker(unpacker, schema).from_instance(instance, start) *)
  Definition vfrom_instancep (s : js) (start : nat) : res (wloc * wanchors) :=
    walkvp s (eval (env_start start) from_instance_start) [].

  (* unpacker.nav(schema, instance) *)
  Definition vnav_ofp (s : js) : res vnav :=
    match vfrom_instancep s from_instance_default with Ok (l, an) => Ok (mkvnav l an) | Err e => Err e end.

  (* NDNav.index: the occurrence is re-walked by a fresh LocationMaker with the same unpacker *)
  Definition vnav_indexp (v : vnav) (i : nat) : res vnav :=
    match vn_loc v with
    | WArr st _ isz cnt _ sch =>
        if refused_low index_refuse_low i || refused index_refuse i cnt then Err IndexError
        else match vfrom_instancep sch (eval (env_index st isz cnt i) index_start) with
             | Ok (l, an) => Ok (mkvnav l an)
             | Err e => Err e
             end
    | _ => Err TypeError
    end.

  Definition vnav_stepp (v : vnav) (s : wstep) : res vnav :=
    match s with SKey k => vnav_name v k | SIdx i => vnav_indexp v i end.

  Fixpoint vnav_pathp (v : vnav) (p : list wstep) : res vnav :=
    match p with
    | [] => Ok v
    | s :: p' => match vnav_stepp v s with Ok v' => vnav_pathp v' p' | Err e => Err e end
    end.

  (* the total decoder the partial one extends to: what Model/Layout.v would be given.  The value chosen for bytes that
     do not decode is immaterial wherever the partial walk returns (Proofs/LayoutPartialP.v, walkvp_agree) *)
  Definition dtot (bs : list B) : nat := match dcountp bs with Ok n => n | Err _ => 0 end.

  (* the exception of the first element of a list of counter fields that does not decode *)
  Fixpoint first_err (l : list (list B)) : option exn :=
    match l with
    | [] => None
    | bs :: t => match dcountp bs with Err e => Some e | Ok _ => first_err t end
    end.
End WalkP.

Arguments wodo_countp {B}.
Arguments walkvp {B}.
Arguments walkvp_props {B}.
Arguments walkvp_alts {B}.
Arguments vfrom_instancep {B}.
Arguments vnav_ofp {B}.
Arguments vnav_indexp {B}.
Arguments vnav_stepp {B}.
Arguments vnav_pathp {B}.
Arguments dtot {B}.
Arguments first_err {B}.

(* ------------------------------------------------------------------ the pre-pass over the EXISTING total walk *)
Section PrePass.
  Variable B : Type.
  Variable dcount : list B -> nat.
  Variable r : list B.

  (* the counter field an ODO table consults, when the case written for DependsOnArraySchema is the one taken and the
     anchor resolves to an atomic location: (start, size) *)
  Definition odo_cpos (c : id) (an : wanchors) : list (nat * nat) :=
    match odo_count_src with
    | CsAnchorValue => match wlookup (KName c) an with Some (WAtom _ cst csz) => [(cst, csz)] | _ => [] end
    | CsAttrMaxItems => []
    end.

  (* the counter fields LayoutValue.walkv dcount r s st an consults, in the order in which it consults them; nothing
     after the point where that walk fails *)
  Fixpoint cpos (s : js) (st : nat) (an : wanchors) : list (nat * nat) :=
    match s with
    | JAtom _ _ => []
    | JArr a n its =>
        match dispatch CArray with
        | Some CArray =>
            match arr_count n with
            | Err _ => []
            | Ok cnt => cpos its (eval (env_arr st 0 cnt) arr_item_start) an
            end
        | _ => []
        end
    | JOdo a c its =>
        match dispatch CDependsOn with
        | Some CDependsOn =>
            odo_cpos c an ++
            match wodo_count dcount r c an with
            | Err _ => []
            | Ok cnt => cpos its (eval (env_arr st 0 cnt) odo_item_start) an
            end
        | Some CArray =>
            match odo_as_arr_count with
            | Err _ => []
            | Ok cnt => cpos its (eval (env_arr st 0 cnt) arr_item_start) an
            end
        | _ => []
        end
    | JObj a ps =>
        match dispatch CObject with
        | Some CObject => cpos_props ps (eval (env_start st) obj_first_offset) an
        | _ => []
        end
    | JOne a alts =>
        match dispatch COneOf with
        | Some COneOf =>
            match alts, agg_empty one_agg with
            | ANil, Err _ => []
            | _, _ => cpos_alts alts (eval (env_start st) one_alt_start) an
            end
        | _ => []
        end
    | JRef _ => []
    end
  with cpos_props (ps : props) (off : nat) (an : wanchors) : list (nat * nat) :=
    match ps with
    | PNil => []
    | PCons k p rest =>
        cpos p (eval (env_off off) obj_child_start) an ++
        match walkv dcount r p (eval (env_off off) obj_child_start) an with
        | Err _ => []
        | Ok (pl, an1) => cpos_props rest (eval (env_step off (wsize pl)) obj_step) (wloop_reg (js_anchor p) pl an1)
        end
    end
  with cpos_alts (alts : jalts) (st : nat) (an : wanchors) : list (nat * nat) :=
    match alts with
    | ANil => []
    | ACons s rest =>
        cpos s st an ++
        match walkv dcount r s st an with
        | Err _ => []
        | Ok (_, an1) => cpos_alts rest st an1
        end
    end.

  (* the bytes of those fields *)
  Definition field_of (p : nat * nat) : list B := slice r (fst p) (fst p + snd p).
  Definition ctrs (s : js) (st : nat) (an : wanchors) : list (list B) := map field_of (cpos s st an).

  (* the counter fields unpacker.nav(schema, instance) consults: from_instance's start, no anchors yet *)
  Definition nav_cpos (s : js) : list (nat * nat) := cpos s (eval (env_start from_instance_default) from_instance_start) [].
  Definition nav_ctrs (s : js) : list (list B) := map field_of (nav_cpos s).
End PrePass.

Arguments cpos {B}.
Arguments cpos_props {B}.
Arguments cpos_alts {B}.
Arguments field_of {B}.
Arguments ctrs {B}.
Arguments nav_cpos {B}.
Arguments nav_ctrs {B}.

Section PrePassNav.
  Variable B : Type.
  Variable dcountp : list B -> res nat.
  Variable r : list B.

  (* counters first, in walk order, over the parameters of the existing walk; then the existing walk *)
  Definition walk_prepass (s : js) (st : nat) (an : wanchors) : res (wloc * wanchors) :=
    match first_err dcountp (ctrs (dtot dcountp) r s st an) with
    | Some e => Err e
    | None => walkv (dtot dcountp) r s st an
    end.

  (* the exception of the first counter field, in walk order, that unpacker.nav(schema, instance) cannot decode *)
  Definition bad_counter (s : js) : option exn := first_err dcountp (nav_ctrs (dtot dcountp) r s).

  Definition vnav_of_prepass (s : js) : res vnav :=
    match bad_counter s with
    | Some e => Err e
    | None => vnav_of (dtot dcountp) r s
    end.

  (* what an application does to read one field: nav = unpacker.nav(schema, instance); nav.name(..).index(..)....value() *)
  Variable A : Type.
  Variable dec : option key -> list B -> res A.
  Definition readp (s : js) (p : list wstep) : vres (pv A) :=
    match vnav_ofp dcountp r s with
    | Err e => Some (Err e)
    | Ok v0 =>
        match vnav_pathp dcountp r v0 p with
        | Err e => Some (Err e)
        | Ok v => vnav_value r dec v
        end
    end.
End PrePassNav.

Arguments walk_prepass {B}.
Arguments bad_counter {B}.
Arguments vnav_of_prepass {B}.
Arguments readp {B} dcountp r {A}.

(* ------------------------------------------------------------------ the layout level (C01 / C06): the navigator of Model/Layout.v,
   which keeps only start and size of every location, with the partial decoder - the value-level navigator with the atoms'
   schemas forgotten (Spec/Coherence.v erase_rnav is the same map; repeated here because the model layer does not import Spec/Coherence) *)
Definition nav_ofp {B} (dcountp : list B -> res nat) (r : list B) (s : js) : res (nav) :=
  match vnav_ofp dcountp r s with
  | Ok v => Ok (mknav (erase (vn_loc v)) (erase_an (vn_an v)))
  | Err e => Err e
  end.

(* ------------------------------------------------------------------ the decoders the code uses, for records of bytes
   int(estruct.unpack(<picture of the counter>, bytes)) with the exception kept.  A counter is an unsigned item without
   implied point whose width is the field's: DISPLAY 9(k) in k bytes, COMP-3 9(2k-1) in k bytes (usage numbers of
   Gen/EstructParams.v: 11 = DISPLAY, 8 = COMP-3).  A negative value (zone or sign nibble D / B): see the head of this file. *)
Definition count_of_int (z : Z) : res nat :=
  if odo_negative_refused && (z <? 0)%Z then Err ValueError else Ok (Z.to_nat z).
Definition count_of_pyval (v : res pyval) : res nat :=
  match v with
  | Ok (VDec d) => count_of_int (int_of_decimal d)
  | Ok (VInt z) => count_of_int z
  | Ok (VStr _) => Err ValueError                (* int() of a string that holds no integer literal *)
  | Err e => Err e
  end.

Definition dcountp_zoned (bs : list N) : res nat := count_of_pyval (unpack 11 (counter_pic bs) bs).
Definition dcountp_packed (bs : list N) : res nat := count_of_pyval (unpack 8 (mkpic false (2 * length bs - 1) 0) bs).
