(* Model of stingray.schema_instance.SchemaMaker (walk_schema / resolve / from_json), of the
   dereferencing properties of the Schema wrappers, and of DNav (src/stingray/schema_instance.py),
   as the code is now.

   walk_schema(source): dispatch on raw keywords in source order
       truthy oneOf (a list with at least one element)            -> OneOfSchema
       truthy $ref (a non-empty string)                           -> RefToSchema
            assert startswith '#'   (AssertionError otherwise)
            name_cache[name] found now -> bound now ; KeyError -> ref_to None, appended to fixup_list
       source['type'] in ATOMIC  (KeyError when there is no type) -> AtomicSchema
       type == 'array' or 'items' in source                       -> walk source.get('items', {})
            (walking the empty dict raises KeyError 'type'), then
            maxItemsDependsOn present: '#'-assert, name must be in the cache NOW else ValueError
                                                                  -> DependsOnArraySchema / ArraySchema
       type == 'object' or 'properties' in source                 -> ObjectSchema (dict order)
       else                                                       -> ValueError
     then, POST-order:  name_cache[$anchor, else title, else '*UNNAMED*'] = schema  (overwrites)
   resolve: every fixup gets ref_to = name_cache[name] of the FINAL cache; KeyError -> ValueError.

   A Schema object is identified by the path (child steps from the root) of the document node it
   was made from: there is exactly one walk_schema call per document node.  The cache is an
   association list, newest first, so the first match is the last write.
   ATOMIC comes from the source (Gen/SchemaMakerParams.v). *)
From Coq Require Import ZArith NArith List Bool.
Import ListNotations.
Require Import SR.Base.Res SR.Spec.JsonDoc SR.Gen.SchemaMakerParams.

Definition s_unnamed : str := [42; 85; 78; 78; 65; 77; 69; 68; 42]%N.
Definition in_atomic (t : str) : bool := mem t atomic_names.

Definition cache := list (str * path).
Definition fixups := list (path * str).

(* source.get("$anchor", source.get("title", "*UNNAMED*")) *)
Definition cache_key (sc : scal) : str :=
  match k_anchor sc with
  | Some a => a
  | None => match k_title sc with Some t => t | None => s_unnamed end
  end.

Definition finish (sc : scal) (rp : path) (s : schema) (c : cache) (fx : fixups)
  : res (schema * cache * fixups) :=
  Ok (s, (cache_key sc, rev rp) :: c, fx).

Fixpoint walk (d : js) (rp : path) (c : cache) (fx : fixups) {struct d}
  : res (schema * cache * fixups) :=
  match d with
  | Node sc o i p =>
      match o with
      | OASome (ACons _ _ as l) =>
          match walk_alts l rp 0 c fx with
          | Ok (ss, c1, fx1) => finish sc rp (LOneOf (Node sc o i p) ss) c1 fx1
          | Err e => Err e
          end
      | _ =>
          match k_ref sc with
          | Some (ch :: name) =>
              if N.eqb ch hash then
                match lookup name c with
                | Some t => finish sc rp (LRefTo (Node sc o i p) (Some t)) c fx
                | None => finish sc rp (LRefTo (Node sc o i p) None) c ((rev rp, name) :: fx)
                end
              else Err AssertionError
          | _ =>
              match k_type sc with
              | None => Err KeyError
              | Some t =>
                  if in_atomic t then finish sc rp (LAtomic (Node sc o i p)) c fx
                  else if str_eqb t s_array || has_items i then
                    match i with
                    | OJNone => Err KeyError
                    | OJSome x =>
                        match walk x (0%nat :: rp) c fx with
                        | Err e => Err e
                        | Ok (it, c1, fx1) =>
                            match k_mido sc with
                            | None => finish sc rp (LArray (Node sc o i p) it) c1 fx1
                            | Some (ch :: name) =>
                                if N.eqb ch hash then
                                  match lookup name c1 with
                                  | Some t => finish sc rp (LDepends (Node sc o i p) it t) c1 fx1
                                  | None => Err ValueError
                                  end
                                else Err AssertionError
                            | Some [] => Err AssertionError
                            end
                        end
                    end
                  else if str_eqb t s_object || has_props p then
                    match p with
                    | OPSome l =>
                        match walk_props l rp 0 c fx with
                        | Ok (ps, c1, fx1) => finish sc rp (LObject (Node sc o i p) ps) c1 fx1
                        | Err e => Err e
                        end
                    | OPNone => finish sc rp (LObject (Node sc o i p) SPNil) c fx
                    end
                  else Err ValueError
              end
          end
      end
  end
with walk_alts (l : alts) (rp : path) (n : nat) (c : cache) (fx : fixups) {struct l}
  : res (slist * cache * fixups) :=
  match l with
  | ANil => Ok (SNil, c, fx)
  | ACons x r =>
      match walk x (n :: rp) c fx with
      | Err e => Err e
      | Ok (s, c1, fx1) =>
          match walk_alts r rp (S n) c1 fx1 with
          | Err e => Err e
          | Ok (ss, c2, fx2) => Ok (SCons s ss, c2, fx2)
          end
      end
  end
with walk_props (l : props) (rp : path) (n : nat) (c : cache) (fx : fixups) {struct l}
  : res (sprops * cache * fixups) :=
  match l with
  | PNil => Ok (SPNil, c, fx)
  | PCons k x r =>
      match walk x (n :: rp) c fx with
      | Err e => Err e
      | Ok (s, c1, fx1) =>
          match walk_props r rp (S n) c1 fx1 with
          | Err e => Err e
          | Ok (ps, c2, fx2) => Ok (SPCons k s ps, c2, fx2)
          end
      end
  end.

(* resolve(): the RefToSchema objects created with ref_to None are exactly the fixup_list; each
   gets name_cache[name] of the final cache *)
Fixpoint patch (c : cache) (s : schema) {struct s} : schema :=
  match s with
  | LAtomic a => LAtomic a
  | LArray a it => LArray a (patch c it)
  | LDepends a it t => LDepends a (patch c it) t
  | LObject a ps => LObject a (patch_props c ps)
  | LOneOf a ss => LOneOf a (patch_list c ss)
  | LRefTo a (Some t) => LRefTo a (Some t)
  | LRefTo a None =>
      LRefTo a (match ref_name (k_ref (scal_of a)) with Some x => lookup x c | None => None end)
  end
with patch_list (c : cache) (ss : slist) {struct ss} : slist :=
  match ss with SNil => SNil | SCons x r => SCons (patch c x) (patch_list c r) end
with patch_props (c : cache) (ps : sprops) {struct ps} : sprops :=
  match ps with SPNil => SPNil | SPCons k x r => SPCons k (patch c x) (patch_props c r) end.

Definition resolvable (c : cache) (fx : fixups) : bool :=
  forallb (fun f => is_some (lookup (snd f) c)) fx.

(* SchemaMaker.from_json *)
Definition load (d : js) : res schema :=
  match walk d [] [] [] with
  | Err e => Err e
  | Ok (s, c, fx) => if resolvable c fx then Ok (patch c s) else Err ValueError
  end.

(* ---- trigger of the known finding: the cache is keyed by title or the UNNAMED literal when a
   node has no $anchor.  [shadowed d] = some node without $anchor has a cache key that some
   reference of the document names. ---- *)
Definition anon_key (e : path * scal * kind) : list str :=
  match k_anchor (snd (fst e)) with None => [cache_key (snd (fst e))] | Some _ => [] end.
Definition anon_keys (d : js) : list str := flat_map anon_key (all_nodes d).
Definition shadowed (d : js) : bool := existsb (fun k => mem k (refnames d)) (anon_keys d).

(* ---- Schema.type / .properties / .items with RefToSchema dereferencing ---- *)
Fixpoint ssize (s : schema) : nat :=
  match s with
  | LAtomic _ => 1
  | LArray _ it => S (ssize it)
  | LDepends _ it _ => S (ssize it)
  | LObject _ ps => S (ssize_props ps)
  | LOneOf _ ss => S (ssize_list ss)
  | LRefTo _ _ => 1
  end
with ssize_list (ss : slist) : nat := match ss with SNil => O | SCons x r => ssize x + ssize_list r end
with ssize_props (ps : sprops) : nat := match ps with SPNil => O | SPCons _ x r => ssize x + ssize_props r end.

(* follow ref_to until a node that is not a RefToSchema.  A chain longer than the number of nodes
   revisits a node: Python recurses until RecursionError (a RuntimeError). *)
Fixpoint deref (fuel : nat) (root s : schema) {struct fuel} : res schema :=
  match s with
  | LRefTo _ (Some t) =>
      match fuel with
      | O => Err RuntimeError
      | S f => match schema_at root t with Some s' => deref f root s' | None => Err OtherError end
      end
  | LRefTo _ None => Err ValueError
  | _ => Ok s
  end.

Definition type_of (s : schema) : res str :=
  match s with
  | LOneOf _ _ => Ok s_oneOf
  | LRefTo _ _ => Err ValueError
  | _ => match k_type (scal_of (attrs s)) with Some t => Ok t | None => Err KeyError end
  end.

Definition stype (root s : schema) : res str := bind (deref (ssize root) root s) type_of.

Fixpoint props_get (ps : sprops) (k : str) : option schema :=
  match ps with
  | SPNil => None
  | SPCons k' x r => if str_eqb k k' then Some x else props_get r k
  end.

(* instance[name] / instance[index] of Python on parsed JSON *)
Definition py_getitem (v : jv) (st : step) : res jv :=
  match st with
  | SName k =>
      match v with
      | JDict m => match jget m k with Some x => Ok x | None => Err KeyError end
      | _ => Err TypeError
      end
  | SIndex z =>
      match v with
      | JList l =>
          let n := Z.of_nat (jlen l) in
          let j := if (z <? 0)%Z then (z + n)%Z else z in
          if (j <? 0)%Z || (n <=? j)%Z then Err IndexError
          else match jnth l (Z.to_nat j) with Some x => Ok x | None => Err IndexError end
      | JStr s =>
          let n := Z.of_nat (length s) in
          let j := if (z <? 0)%Z then (z + n)%Z else z in
          if (j <? 0)%Z || (n <=? j)%Z then Err IndexError
          else match nth_error s (Z.to_nat j) with Some c => Ok (JStr [c]) | None => Err IndexError end
      | JDict _ => Err KeyError
      | _ => Err TypeError
      end
  end.

(* DNav.name / DNav.index: the navigator is (schema, instance) *)
Definition nav_step (root s : schema) (v : jv) (st : step) : res (schema * jv) :=
  match stype root s with
  | Err e => Err e
  | Ok t =>
      match st with
      | SName k =>
          if negb (str_eqb t s_object) then Err TypeError
          else match deref (ssize root) root s with
               | Ok (LObject _ ps) =>
                   match props_get ps k with
                   | None => Err KeyError
                   | Some sub => match py_getitem v st with Ok x => Ok (sub, x) | Err e => Err e end
                   end
               | Ok _ => Err AttributeError
               | Err e => Err e
               end
      | SIndex _ =>
          if negb (str_eqb t s_array) then Err TypeError
          else match deref (ssize root) root s with
               | Ok (LArray _ it) | Ok (LDepends _ it _) =>
                   match py_getitem v st with Ok x => Ok (it, x) | Err e => Err e end
               | Ok _ => Err AttributeError
               | Err e => Err e
               end
      end
  end.

Fixpoint navigate (root s : schema) (v : jv) (p : list step) : res (schema * jv) :=
  match p with
  | [] => Ok (s, v)
  | st :: q => match nav_step root s v st with Ok (s', v') => navigate root s' v' q | Err e => Err e end
  end.

(* DNav(...).name(..).index(..)....value() *)
Definition nav_value (root : schema) (v : jv) (p : list step) : res jv :=
  match navigate root root v p with Ok (_, x) => Ok x | Err e => Err e end.

(* ---- an instance that has the structure its schema describes: dicts (with declared names only)
   under object schemas, lists under array schemas, null / booleans / integers elsewhere; seen
   through references.  Strings are left out because a Python string can itself be indexed. ---- *)
Fixpoint conforms (root s : schema) (v : jv) {struct v} : bool :=
  match deref (ssize root) root s with
  | Ok (LObject a ps) =>
      ostr_eqb (k_type (scal_of a)) (Some s_object) &&
      match v with JDict m => conforms_dict root ps m | _ => false end
  | Ok (LArray a it) | Ok (LDepends a it _) =>
      ostr_eqb (k_type (scal_of a)) (Some s_array) &&
      match v with JList l => conforms_list root it l | _ => false end
  | Ok _ => match v with JNull | JBool _ | JInt _ => true | _ => false end
  | Err _ => false
  end
with conforms_list (root it : schema) (l : jlist) {struct l} : bool :=
  match l with
  | JLNil => true
  | JLCons x r => conforms root it x && conforms_list root it r
  end
with conforms_dict (root : schema) (ps : sprops) (m : jdict) {struct m} : bool :=
  match m with
  | JDNil => true
  | JDCons k x r =>
      match props_get ps k with Some sub => conforms root sub x | None => false end
      && conforms_dict root ps r
  end.
