(* The vocabulary in which harness/t1_layout.py states what it read in
     src/stingray/schema_instance.py   Location.__init__ and the constructors of its subclasses,
                                       LocationMaker.walk / from_instance / from_schema / size,
                                       NDNav.name / index / raw
   (Gen/LayoutParams.v, regenerated from the source on every run), and the functions with which
   Model/Layout.v, Model/LayoutValue.v and Model/OdoStream.v evaluate those statements.  No proofs here.

   An integer expression of the source (the start handed to a recursive walk, the end handed to a Location
   constructor, the offset NDNav.index computes ...) is a polynomial over the NAMED QUANTITIES in scope at
   that place; the extractor resolves local names through the straight-line assignments, normalises the
   polynomial and prints it as an [lexpr].  The model evaluates it in the environment of that place. *)
From Coq Require Import List Arith ZArith Bool.
Import ListNotations.
Require Import SR.Base.Res.
Open Scope nat_scope.

(* how a size is aggregated over a sequence of locations: sum(), max(), min(), [0], [-1] *)
Inductive agg := AggSum | AggMax | AggMin | AggFirst | AggLast.

(* a comparison  left OP right *)
Inductive cmp := CmpGe | CmpGt | CmpLe | CmpLt | CmpEq | CmpNe.

(* the Schema classes LocationMaker.walk distinguishes *)
Inductive sclass := CAtomic | CDependsOn | CArray | CObject | COneOf | CRefTo.

(* which alternative OneOfLocation.value evaluates: first, *others = ...  /  *others, last = ... *)
Inductive pick := PickFirst | PickLast.

(* where an array's item count comes from *)
Inductive count_src :=
| CsAttrMaxItems      (* int(schema.attributes.get('maxItems', schema.attributes.get('minItems', 0))) *)
| CsAnchorValue.      (* int(self.anchors[name after '#' in schema.max_ref].value(self.instance)) *)

(* the named quantities *)
Inductive lvar :=
| VStart      (* the parameter start: of walk, of Location.__init__, of from_instance / from_schema *)
| VBaseStart  (* NDNav.index: base_location.start *)
| VLocStart   (* NDNav.raw: self.location.start; Location.value: self.start *)
| VOffset     (* ObjectSchema case: the running offset (inside the loop: before this property; after it: the final one) *)
| VEnd        (* Location.__init__: the parameter end *)
| VLocEnd     (* NDNav.raw: self.location.end; Location.value: self.end *)
| VValOffset  (* Location.value(instance, offset): the parameter offset *)
| VCalc       (* AtomicSchema case: self.size(schema) = self.unpacker.calcsize(schema) *)
| VSubSize    (* .size of the location a recursive walk returned (the array's item, the property) *)
| VIter       (* ArrayLocation.value: the loop variable of  for i in range(...) *)
| VItemSize   (* NDNav.index: base_location.item_size; ArrayLocation.value: self.item_size *)
| VAgg        (* OneOfSchema case: the aggregate over the alternatives' sizes *)
| VCount      (* array cases: the item count *)
| VItemCount  (* NDNav.index: base_location.item_count; ArrayLocation.value: self.item_count *)
| VIndex.     (* NDNav.index: the parameter index *)

Inductive lexpr :=
| EVar (v : lvar)
| ENat (n : nat)
| EAdd (a b : lexpr)
| ESub (a b : lexpr)
| EMul (a b : lexpr).

Definition env := lvar -> nat.

Fixpoint eval (v : env) (e : lexpr) : nat :=
  match e with
  | EVar x => v x
  | ENat n => n
  | EAdd a b => eval v a + eval v b
  | ESub a b => eval v a - eval v b
  | EMul a b => eval v a * eval v b
  end.

(* the same over Python's unbounded integers (NDNav.index accepts a negative index) *)
Fixpoint evalZ (v : lvar -> Z) (e : lexpr) : Z :=
  match e with
  | EVar x => v x
  | ENat n => Z.of_nat n
  | EAdd a b => (evalZ v a + evalZ v b)%Z
  | ESub a b => (evalZ v a - evalZ v b)%Z
  | EMul a b => (evalZ v a * evalZ v b)%Z
  end.

Definition cmp_holds (c : cmp) (a b : nat) : bool :=
  match c with
  | CmpGe => b <=? a
  | CmpGt => b <? a
  | CmpLe => a <=? b
  | CmpLt => a <? b
  | CmpEq => a =? b
  | CmpNe => negb (a =? b)
  end.

Definition cmp_holdsZ (c : cmp) (a b : Z) : bool :=
  match c with
  | CmpGe => (b <=? a)%Z
  | CmpGt => (b <? a)%Z
  | CmpLe => (a <=? b)%Z
  | CmpLt => (a <? b)%Z
  | CmpEq => (a =? b)%Z
  | CmpNe => negb (a =? b)%Z
  end.

(* if a OP b: raise ...   (None: the source has no such statement) *)
Definition refused (c : option cmp) (a b : nat) : bool := match c with Some c => cmp_holds c a b | None => false end.
Definition refusedZ (c : option cmp) (a b : Z) : bool := match c with Some c => cmp_holdsZ c a b | None => false end.

(* if a OP <constant>: raise ...   (None: no such test) *)
Definition refused_low (c : option (cmp * nat)) (a : nat) : bool :=
  match c with Some (c, k) => cmp_holds c a k | None => false end.
Definition refused_lowZ (c : option (cmp * nat)) (a : Z) : bool :=
  match c with Some (c, k) => cmp_holdsZ c a (Z.of_nat k) | None => false end.

(* is the exception among those an  except (...)  clause names *)
Definition caught (es : list exn) (e : exn) : bool := existsb (exn_eqb e) es.

(* what the aggregate of an EMPTY sequence is: sum(()) = 0, max(()) / min(()) raise ValueError, ()[0] IndexError *)
Definition agg_empty (g : agg) : res nat :=
  match g with
  | AggSum => Ok 0
  | AggMax | AggMin => Err ValueError
  | AggFirst | AggLast => Err IndexError
  end.

(* ---- match schema: case A(): ... case B(): ...   the first case whose class the object is an instance of ---- *)
Definition sclass_eqb (a b : sclass) : bool :=
  match a, b with
  | CAtomic, CAtomic | CDependsOn, CDependsOn | CArray, CArray | CObject, CObject | COneOf, COneOf | CRefTo, CRefTo => true
  | _, _ => false
  end.

(* isinstance(object of class rt, c): class DependsOnArraySchema(ArraySchema); the others derive from Schema directly
   (the extractor checks the class statements) *)
Definition isa (rt c : sclass) : bool :=
  sclass_eqb rt c || match rt, c with CDependsOn, CArray => true | _, _ => false end.

Definition dispatch_in (cases : list sclass) (rt : sclass) : option sclass := find (isa rt) cases.

(* ---- the environments of the places where the source computes with these quantities ---- *)
Definition env_start (st : nat) : env := fun v => match v with VStart => st | _ => 0 end.
Definition env_atom (st sz : nat) : env := fun v => match v with VStart => st | VCalc => sz | _ => 0 end.
Definition env_arr (st isz cnt : nat) : env :=
  fun v => match v with VStart => st | VSubSize => isz | VCount => cnt | _ => 0 end.
Definition env_off (off : nat) : env := fun v => match v with VOffset => off | _ => 0 end.
Definition env_step (off sz : nat) : env := fun v => match v with VOffset => off | VSubSize => sz | _ => 0 end.
Definition env_obj (st off : nat) : env := fun v => match v with VStart => st | VOffset => off | _ => 0 end.
Definition env_one (st m : nat) : env := fun v => match v with VStart => st | VAgg => m | _ => 0 end.
Definition env_init (st en : nat) : env := fun v => match v with VStart => st | VEnd => en | _ => 0 end.
Definition env_index (bst isz cnt i : nat) : env :=
  fun v => match v with VBaseStart => bst | VItemSize => isz | VItemCount => cnt | VIndex => i | _ => 0 end.
Definition env_indexZ (bst isz cnt : nat) (i : Z) : lvar -> Z :=
  fun v => match v with
           | VBaseStart => Z.of_nat bst | VItemSize => Z.of_nat isz | VItemCount => Z.of_nat cnt | VIndex => i
           | _ => 0%Z
           end.
Definition env_raw (s e : nat) : env := fun v => match v with VLocStart => s | VLocEnd => e | _ => 0 end.
(* Location.value(instance, offset) of a location with the given start and end *)
Definition env_val (s e off : nat) : env :=
  fun v => match v with VLocStart => s | VLocEnd => e | VValOffset => off | _ => 0 end.
(* ... of an ArrayLocation, inside  for i in range(...) *)
Definition env_arrval (off i isz cnt : nat) : env :=
  fun v => match v with VValOffset => off | VIter => i | VItemSize => isz | VItemCount => cnt | _ => 0 end.
