(* Model of CPython's csv module as the C03 harness and the library call it (Python 3.12, Modules/_csv.c),
   with the excel dialect: quotechar = the double quote, doublequote = True, escapechar = None,
   skipinitialspace = False, strict = False, quoting = QUOTE_MINIMAL, lineterminator = CR LF;
   only the delimiter varies (comma for .csv, TAB for the tab-delimited files).

   Writer side   harness/c03.py _write_csv: csv.writer(f, delimiter=d).writerow(r) for every row, on a file
                 opened with newline='' (nothing is translated on the way out): [csv_write].
                 join_append_data: a field is quoted when one of its characters is the delimiter, the quote
                 character or a character of the line terminator (CR, LF); a quote character is doubled.  Blanks,
                 leading or trailing, TAB (unless it is the delimiter), NUL, U+0085 / U+2028 / U+2029 do NOT
                 cause quoting.  csv_writerow: a record with at least one field whose text is empty (exactly: one
                 empty field) is written as two quote characters; a record without fields is the bare terminator.
   Reader side   src/stingray/workbook.py CSVUnpacker.open opens the file in text mode; whether with newline='' (as the
                 csv documentation asks: line ends reach the reader as they are) or with the default newline handling
                 (universal newlines: CR LF and CR arrive as LF) is READ FROM THE SOURCE on every run
                 (Gen/CsvOpenParams.csv_newline_raw, harness/t1_c03b.py).  instance_iter: csv.reader(the_file, **kwargs),
                 one list of str per record: [lib_reader] / [lib_read] = [csv_reader_raw] / [csv_read_raw] when the
                 parameter is true (the tree from commit aa3b8fc on), [csv_reader] / [csv_read] when it is false (before).
                 csv.reader over a mode-r file ([text_lines] = Workbook.text_lines): [csv_reader]; over a file opened
                 with newline='' (lines end at CR LF, CR or LF and keep their line end): [csv_reader_raw]; over any
                 list of str: [read_records].
                 Reader_iternext: parse_reset, then line after line from the iterator, every character through
                 parse_process_char and, at the end of every line, the pseudo character EOL, until the state is
                 START_RECORD again; when the iterator is exhausted inside a record: if the field buffer is not
                 empty or the state is IN_QUOTED_FIELD the pending field is saved and the partial record is
                 delivered (strict is False), otherwise the iteration ends.
                 parse_add_char: csv.Error when the field already holds field_size_limit() = 131072 characters.
                 EAT_CRNL: any character other than CR, LF, EOL is csv.Error (new-line character seen in
                 unquoted field); it cannot happen for lines that come from a file, it can for a list of str.
   csv.Error has no entry in the harness exception table: it is [OtherError] (code 99).
   A record is delivered as the list of its fields; an empty line gives the empty list. *)
From Coq Require Import NArith List Bool.
Import ListNotations.
Require Import SR.Base.Res.
Require SR.Model.Workbook.
Require Import SR.Gen.CsvOpenParams.
Open Scope N_scope.

Definition text := list N.

Definition QUOTE : N := 34.
Definition CR : N := 13.
Definition LF : N := 10.
Definition COMMA : N := 44.
Definition TAB : N := 9.

(* list reversal in linear time (the standard library's rev is quadratic; a field may hold 131072 characters) *)
Definition frev {A} (l : list A) : list A := rev_append l [].

(* csv.field_size_limit() *)
Definition field_limit : N := 131072.

(* ------------------------------------------------------------------ writer *)
(* join_append_data: the characters that make the writer quote the field *)
Definition special (d c : N) : bool := (c =? d) || (c =? QUOTE) || (c =? CR) || (c =? LF).

Definition needs_quotes (d : N) (f : text) : bool := existsb (special d) f.

Fixpoint double_quotes (f : text) : text :=
  match f with
  | [] => []
  | c :: t => if c =? QUOTE then QUOTE :: QUOTE :: double_quotes t else c :: double_quotes t
  end.

Definition write_field (d : N) (f : text) : text :=
  if needs_quotes d f then QUOTE :: double_quotes f ++ [QUOTE] else f.

(* the delimiter before every field but the first *)
Fixpoint join (d : N) (fs : list text) : text :=
  match fs with
  | [] => []
  | [f] => f
  | f :: t => f ++ d :: join d t
  end.

(* csv_writerow: a record that has fields but no text is written again as one quoted empty field *)
Definition write_row (d : N) (r : list text) : text :=
  let body := join d (map (write_field d) r) in
  match r, body with
  | _ :: _, [] => [QUOTE; QUOTE; CR; LF]
  | _, _ => body ++ [CR; LF]
  end.

Definition csv_write (d : N) (rows : list (list text)) : text := concat (map (write_row d) rows).

(* ------------------------------------------------------------------ reader: parse_process_char *)
Inductive state := START_RECORD | START_FIELD | IN_FIELD | IN_QUOTED_FIELD | QUOTE_IN_QUOTED_FIELD | EAT_CRNL.
(* ESCAPED_CHAR, AFTER_ESCAPED_CRNL and ESCAPE_IN_QUOTED_FIELD are entered only through the escape character,
   which the excel dialect does not have *)

Definition state_eqb (a b : state) : bool :=
  match a, b with
  | START_RECORD, START_RECORD | START_FIELD, START_FIELD | IN_FIELD, IN_FIELD
  | IN_QUOTED_FIELD, IN_QUOTED_FIELD | QUOTE_IN_QUOTED_FIELD, QUOTE_IN_QUOTED_FIELD | EAT_CRNL, EAT_CRNL => true
  | _, _ => false
  end.

(* the field buffer and the list of saved fields are kept reversed; r_len is field_len *)
Record reader := mk_reader { r_state : state; r_field : text; r_len : N; r_fields : list text }.

Definition reset : reader := mk_reader START_RECORD [] 0 [].

Definition set_state (r : reader) (s : state) : reader := mk_reader s (r_field r) (r_len r) (r_fields r).

Definition add_char (r : reader) (c : N) : res reader :=
  if field_limit <=? r_len r then Err OtherError
  else Ok (mk_reader (r_state r) (c :: r_field r) (r_len r + 1) (r_fields r)).

Definition save_field (r : reader) : reader := mk_reader (r_state r) [] 0 (frev (r_field r) :: r_fields r).

Definition is_nl (c : N) : bool := (c =? LF) || (c =? CR).

(* end of a field at a line end: EOL -> START_RECORD, CR or LF -> EAT_CRNL *)
Definition end_of_line (r : reader) (c : option N) : reader :=
  set_state (save_field r) (match c with None => START_RECORD | Some _ => EAT_CRNL end).

(* c = None is the pseudo character EOL that Reader_iternext sends after the last character of a line *)
Definition process_char (d : N) (r : reader) (c : option N) : res reader :=
  let start_field (r : reader) : res reader :=
    match c with
    | None => Ok (end_of_line r c)
    | Some x =>
        if is_nl x then Ok (end_of_line r c)
        else if x =? QUOTE then Ok (set_state r IN_QUOTED_FIELD)
        else if x =? d then Ok (save_field r)
        else bind (add_char r x) (fun r' => Ok (set_state r' IN_FIELD))
    end in
  match r_state r with
  | START_RECORD =>
      match c with
      | None => Ok r                                              (* empty line: the record is the empty list *)
      | Some x => if is_nl x then Ok (set_state r EAT_CRNL) else start_field (set_state r START_FIELD)
      end
  | START_FIELD => start_field r
  | IN_FIELD =>
      match c with
      | None => Ok (end_of_line r c)
      | Some x =>
          if is_nl x then Ok (end_of_line r c)
          else if x =? d then Ok (set_state (save_field r) START_FIELD)
          else add_char r x
      end
  | IN_QUOTED_FIELD =>
      match c with
      | None => Ok r
      | Some x => if x =? QUOTE then Ok (set_state r QUOTE_IN_QUOTED_FIELD) else add_char r x
      end
  | QUOTE_IN_QUOTED_FIELD =>
      match c with
      | None => Ok (end_of_line r c)
      | Some x =>
          if x =? QUOTE then bind (add_char r x) (fun r' => Ok (set_state r' IN_QUOTED_FIELD))
          else if x =? d then Ok (set_state (save_field r) START_FIELD)
          else if is_nl x then Ok (end_of_line r c)
          else bind (add_char r x) (fun r' => Ok (set_state r' IN_FIELD))     (* strict is False *)
      end
  | EAT_CRNL =>
      match c with
      | None => Ok (set_state r START_RECORD)
      | Some x => if is_nl x then Ok r else Err OtherError
      end
  end.

(* ------------------------------------------------------------------ reader: Reader_iternext over the lines *)
(* one line: its characters, then EOL *)
Fixpoint feed (d : N) (r : reader) (line : text) : res reader :=
  match line with
  | [] => process_char d r None
  | c :: t => bind (process_char d r (Some c)) (fun r' => feed d r' t)
  end.

(* the records the iteration delivers, and the exception that ended it, if one did *)
Fixpoint read_records (d : N) (r : reader) (lines : list text) : list (list text) * option exn :=
  match lines with
  | [] =>
      if negb (r_len r =? 0) || state_eqb (r_state r) IN_QUOTED_FIELD
      then ([frev (r_fields (save_field r))], None)
      else ([], None)
  | l :: ls =>
      match feed d r l with
      | Err e => ([], Some e)
      | Ok r' =>
          match r_state r' with
          | START_RECORD => let (rows, e) := read_records d reset ls in (frev (r_fields r') :: rows, e)
          | _ => read_records d r' ls
          end
      end
  end.

(* ------------------------------------------------------------------ the text layer *)
(* iter(file) for a file opened in mode r: Workbook.text_lines (universal newlines, then a line ends after every
   LF), with the linear-time reversal; equal to it on every text (Proofs/CsvP.v text_lines_same) *)
Fixpoint lines_from (cur : text) (s : text) : list text :=
  match s with
  | [] => match cur with [] => [] | _ => [frev cur] end
  | c :: t => if c =? LF then frev (c :: cur) :: lines_from [] t else lines_from (c :: cur) t
  end.

Definition text_lines (file : text) : list text := lines_from [] (Workbook.universal_newlines file).

(* iter(file) for a file opened with newline='': a line ends after CR LF, after a CR not followed by LF,
   after LF; nothing is translated *)
Fixpoint raw_lines_from (cur : text) (s : text) : list text :=
  match s with
  | [] => match cur with [] => [] | _ => [frev cur] end
  | c :: t =>
      if c =? LF then frev (c :: cur) :: raw_lines_from [] t
      else if c =? CR then
        match t with
        | c2 :: t2 => if c2 =? LF then frev (c2 :: c :: cur) :: raw_lines_from [] t2
                      else frev (c :: cur) :: raw_lines_from [] t
        | [] => [frev (c :: cur)]
        end
      else raw_lines_from (c :: cur) t
  end.

Definition raw_lines (s : text) : list text := raw_lines_from [] s.

(* csv.reader over the file opened in mode r with the default newline handling *)
Definition csv_reader (d : N) (file : text) : list (list text) * option exn :=
  read_records d reset (text_lines file).

(* csv.reader over the file opened with newline='' *)
Definition csv_reader_raw (d : N) (file : text) : list (list text) * option exn :=
  read_records d reset (raw_lines file).

Definition outcome (p : list (list text) * option exn) : res (list (list text)) :=
  match p with (rows, None) => Ok rows | (_, Some e) => Err e end.

(* list(unpacker.instance_iter(name)): all records, or the exception *)
Definition csv_read (d : N) (file : text) : res (list (list text)) := outcome (csv_reader d file).
Definition csv_read_raw (d : N) (file : text) : res (list (list text)) := outcome (csv_reader_raw d file).

(* what the library's unpacker delivers: the reader over the file as CSVUnpacker.open opens it *)
Definition lib_reader (d : N) (file : text) : list (list text) * option exn :=
  if csv_newline_raw then csv_reader_raw d file else csv_reader d file.
Definition lib_read (d : N) (file : text) : res (list (list text)) := outcome (lib_reader d file).

(* ------------------------------------------------------------------ domains *)
(* csv.writer accepts any one-character delimiter; the reader tells it from the quote character and from
   the line ends only when it is none of them *)
Definition delim_ok (d : N) : bool := negb (d =? QUOTE) && negb (d =? CR) && negb (d =? LF).

Definition within_limit (c : text) : bool := N.of_nat (length c) <=? field_limit.
Definition no_cr (c : text) : bool := forallb (fun x => negb (x =? CR)) c.

(* what survives a file read in mode r with the default newline handling: any rows (also none, also rows without cells), cells of any
   code points except the carriage return, at most field_limit characters long *)
Definition cell_ok (c : text) : bool := no_cr c && within_limit c.
Definition table_ok (T : list (list text)) : bool := forallb (forallb cell_ok) T.

(* what survives a file opened with newline='': every cell within the size limit *)
Definition table_ok_raw (T : list (list text)) : bool := forallb (forallb within_limit) T.
