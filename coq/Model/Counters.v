(* C06 - the OCCURS DEPENDING ON counter as it occurs in practice, and as the code sees it.

     schema_instance.py, LocationMaker.walk, case DependsOnArraySchema:
         maxItems = int(self.anchors[max_ref_name].value(self.instance))
         sublocation = self.walk(schema.items, start)
         item_size = sublocation.size
         total_size = item_size * maxItems
         loc = ArrayLocation(schema, item_size, maxItems, sublocation, start, start + total_size)

   PART 1 - the decoders.  Model/ZonedCounter.v has the unsigned zoned DISPLAY counter only; the usual counters are
   PIC S9(4) COMP and PIC 9(3) COMP-3.  .value() of the counter's AtomicLocation is EBCDIC.value: estruct.unpack on the
   counter's bytes by the counter's OWN usage and picture, then the item's conversion (Decimal of a Decimal, nothing for
   a binary item), and walk applies int().  The result is a Python int - possibly NEGATIVE - or an exception:
       zcount_zoned          USAGE DISPLAY, zoned decimal            (unpack, usage 11)
       zcount_packed         USAGE COMP-3 / PACKED-DECIMAL           (unpack, usage 8)
       zcount_binary d       USAGE COMP / BINARY, d digit positions  (unpack, usage 10): 2, 4 or 8 bytes
   all three are Model/Estruct.v's unpack composed with int() (zcount_of_pyval).  The decoder reads the sign nibble /
   the two's-complement sign whatever the picture says (an unsigned picture does not make the value non-negative).
   dcount_packed, dcount_binary d : list N -> nat are the total completions Model/Layout.v asks for (as
   Model/ZonedCounter.dcount_zoned: an exception counts 0, a negative value is clamped to 0): the C06 theorems are
   instantiated with them in Props/C06e.v under hypotheses that exclude both cases.

   PART 2 - the walk over Python's integers.  Model/Layout.v keeps offsets in nat, so a table of NEGATIVE length is
   inexpressible there (and Z.to_nat silently turns the counter into 0, which is not what the code does).  zwalk below is
   LocationMaker.walk again with
     - the counter decoder zdec : list B -> res Z (value as the code sees it, or the exception, which leaves the walk);
     - every start, end and size a Z, computed by the SAME statements Model/Layout.v evaluates (Gen/LayoutParams.v, read
       from the current source by harness/t1_layout.py) through LayoutRule.evalZ;
     - Location.__init__ as it is:   self.start = start
                                     if end:  self.end = end;   self.size = end - start
                                     else:    self.end = start; self.size = 0
       (the test is on the VALUE of end: an end of 0 - start + total_size = 0 - counts as "no end given");
       a zloc therefore keeps start, end and size separately (ObjectLocation overwrites size with the sum of the sizes
       of its properties, so end - start and size may differ);
     - Python slices with negative bounds (pyslice: an index below zero counts from the end of the buffer).
   znav_of / znav_name / znav_index / znav_raw are unpacker.nav, NDNav.name, NDNav.index, NDNav.raw over that walk.
     - the sign test of the DependsOnArraySchema case ( if maxItems < 0: raise ValueError , fix of finding K-negative-counter):
       the walk takes a flag negref - is a negative item count refused - and raises ValueError at that table, before the items
       are walked, when it is set.  zwalk / znav_of / znav_index / znav_path are the walk with the flag as the source has it NOW
       (Gen/LayoutParams.odo_negative_refused); zwalk_with false is the walk before the fix, about which the _old theorems of
       Props/C06e.v speak.
   No proofs in this file. *)
From Coq Require Import ZArith NArith List Bool Arith.
Import ListNotations.
Require Import SR.Base.Res SR.Base.Dec SR.Model.Estruct SR.Model.ZonedCounter.
Require Import SR.Spec.Layout SR.Model.LayoutRule SR.Gen.LayoutParams SR.Model.Layout.

(* ================================================================== PART 1: decoders *)

(* int(x) of what EBCDIC.value returns: Decimal -> truncation toward zero; int -> itself; str -> int(text) *)
Definition zcount_of_pyval (v : res pyval) : res Z :=
  match v with
  | Ok (VDec d) => Ok (int_of_decimal d)
  | Ok (VInt z) => Ok z
  | Ok (VStr s) => match int_of_text s with Ok (VInt z) => Ok z | Ok _ => Err ValueError | Err e => Err e end
  | Err e => Err e
  end.

(* pictures of counters (no implied decimal point).  DISPLAY: as many positions as the field has bytes
   (ZonedCounter.counter_pic); COMP-3: 2k-1 digits in k bytes; COMP: the declared digit count d decides how many bytes
   the DECODER wants (1-4: 2, 5-9: 4, 10-18: 8), independently of the field it is handed. *)
Definition packed_pic (bs : list N) : pic := mkpic true (2 * length bs - 1) 0.
Definition binary_pic (d : nat) : pic := mkpic true d 0.

Definition zcount_zoned (bs : list N) : res Z := zcount_of_pyval (unpack 11 (counter_pic bs) bs).
Definition zcount_packed (bs : list N) : res Z := zcount_of_pyval (unpack 8 (packed_pic bs) bs).
Definition zcount_binary (d : nat) (bs : list N) : res Z := zcount_of_pyval (unpack 10 (binary_pic d) bs).

(* the total, natural-number completion Model/Layout.v takes *)
Definition nat_of_zres (x : res Z) : nat := match x with Ok z => Z.to_nat z | Err _ => 0%nat end.
Definition dcount_packed (bs : list N) : nat := nat_of_zres (zcount_packed bs).
Definition dcount_binary (d : nat) (bs : list N) : nat := nat_of_zres (zcount_binary d bs).

(* ================================================================== PART 2: LocationMaker.walk over Z *)

(* Python: seq[a:b] for integers a, b of either sign *)
Definition norm_idx (len i : Z) : Z := if (i <? 0)%Z then Z.max 0 (i + len) else Z.min i len.
Definition pyslice {B} (r : list B) (a b : Z) : list B :=
  let n := Z.of_nat (length r) in
  let lo := norm_idx n a in
  let hi := norm_idx n b in
  firstn (Z.to_nat (hi - lo)) (skipn (Z.to_nat lo) r).

Inductive zloc :=
| ZAtom (st en sz : Z)
| ZArr  (st en sz isz cnt : Z) (it : zloc) (sch : js)
| ZObj  (st en sz : Z) (ps : zprops)
| ZOne  (st en sz : Z) (alts : zalts)
| ZRef  (st en sz : Z) (target : key)
with zprops := ZPNil | ZPCons (k : key) (l : zloc) (r : zprops)
with zalts := ZANil | ZACons (l : zloc) (r : zalts).

Scheme zloc_ind3 := Induction for zloc Sort Prop
with zprops_ind3 := Induction for zprops Sort Prop
with zalts_ind3 := Induction for zalts Sort Prop.
Combined Scheme zloc_zprops_zalts_ind from zloc_ind3, zprops_ind3, zalts_ind3.

Definition zstart (l : zloc) : Z :=
  match l with ZAtom s _ _ | ZArr s _ _ _ _ _ _ | ZObj s _ _ _ | ZOne s _ _ _ | ZRef s _ _ _ => s end.
Definition zend (l : zloc) : Z :=
  match l with ZAtom _ e _ | ZArr _ e _ _ _ _ _ | ZObj _ e _ _ | ZOne _ e _ _ | ZRef _ e _ _ => e end.
Definition zsize (l : zloc) : Z :=
  match l with ZAtom _ _ z | ZArr _ _ z _ _ _ _ | ZObj _ _ z _ | ZOne _ _ z _ | ZRef _ _ z _ => z end.

(* ---- the environments of LayoutRule.v over Z *)
Open Scope Z_scope.
Definition zenv_start (st : Z) : lvar -> Z := fun v => match v with VStart => st | _ => 0 end.
Definition zenv_atom (st sz : Z) : lvar -> Z := fun v => match v with VStart => st | VCalc => sz | _ => 0 end.
Definition zenv_arr (st isz cnt : Z) : lvar -> Z :=
  fun v => match v with VStart => st | VSubSize => isz | VCount => cnt | _ => 0 end.
Definition zenv_off (off : Z) : lvar -> Z := fun v => match v with VOffset => off | _ => 0 end.
Definition zenv_step (off sz : Z) : lvar -> Z := fun v => match v with VOffset => off | VSubSize => sz | _ => 0 end.
Definition zenv_obj (st off : Z) : lvar -> Z := fun v => match v with VStart => st | VOffset => off | _ => 0 end.
Definition zenv_one (st m : Z) : lvar -> Z := fun v => match v with VStart => st | VAgg => m | _ => 0 end.
Definition zenv_init (st en : Z) : lvar -> Z := fun v => match v with VStart => st | VEnd => en | _ => 0 end.
Definition zenv_index (bst isz cnt i : Z) : lvar -> Z :=
  fun v => match v with VBaseStart => bst | VItemSize => isz | VItemCount => cnt | VIndex => i | _ => 0 end.
Definition zenv_raw (s e : Z) : lvar -> Z := fun v => match v with VLocStart => s | VLocEnd => e | _ => 0 end.
Definition zenv_val (s e off : Z) : lvar -> Z :=
  fun v => match v with VLocStart => s | VLocEnd => e | VValOffset => off | _ => 0 end.

(* ---- Location.__init__(schema, start, end):  if <test>:  is the truth value of an int, i.e. test <> 0 *)
Definition zinit_start (s e : Z) : Z := evalZ (zenv_init s e) init_start.
Definition zinit_given (s e : Z) : bool := negb (evalZ (zenv_init s e) init_test =? 0).
Definition zinit_end (s e : Z) : Z :=
  if zinit_given s e then evalZ (zenv_init s e) init_end_then else evalZ (zenv_init s e) init_end_else.
Definition zinit_size (s e : Z) : Z :=
  if zinit_given s e then evalZ (zenv_init s e) init_size_then else evalZ (zenv_init s e) init_size_else.

Definition zanchors := list (key * zloc).
Definition zreg (a : option key) (l : zloc) (an : zanchors) : zanchors :=
  match a with Some k => (k, l) :: an | None => an end.
Fixpoint zlookup (k : key) (an : zanchors) : option zloc :=
  match an with
  | [] => None
  | (k', l) :: r => if key_eqb k k' then Some l else zlookup k r
  end.
Definition zpost_reg (a : option key) (l : zloc) (an : zanchors) : zanchors :=
  if walk_registers_anchor then zreg a l an else an.
Definition zloop_reg (a : option key) (l : zloc) (an : zanchors) : zanchors :=
  if obj_loop_registers_anchor then zreg a l an else an.

(* aggregates over sizes *)
Fixpoint zsizes_alts (ls : zalts) : list Z := match ls with ZANil => [] | ZACons l r => zsize l :: zsizes_alts r end.
Fixpoint zsizes_props (ps : zprops) : list Z := match ps with ZPNil => [] | ZPCons _ l r => zsize l :: zsizes_props r end.
Definition zsum (l : list Z) : Z := fold_right Z.add 0 l.
Fixpoint zmaxl (l : list Z) : Z := match l with [] => 0 | [x] => x | x :: r => Z.max x (zmaxl r) end.
Fixpoint zminl (l : list Z) : Z := match l with [] => 0 | [x] => x | x :: r => Z.min x (zminl r) end.
Definition zagg (g : agg) (l : list Z) : Z :=
  match g with
  | AggSum => zsum l | AggMax => zmaxl l | AggMin => zminl l
  | AggFirst => hd 0 l | AggLast => last l 0
  end.

(* the size of an ObjectLocation built with (start, end) = (s, e) over the property locations ps *)
Definition zobj_size (s e : Z) (ps : zprops) : Z :=
  match obj_size_override with Some g => zagg g (zsizes_props ps) | None => zinit_size s e end.

(* ArrayLocation(schema, <item_size>, <item_count>, sublocation, <start>, <end>) *)
Definition zarr_loc (es ee eisz ecnt : lexpr) (st : Z) (sub : zloc) (cnt : Z) (its : js) : zloc :=
  let v := zenv_arr st (zsize sub) cnt in
  ZArr (zinit_start (evalZ v es) (evalZ v ee)) (zinit_end (evalZ v es) (evalZ v ee)) (zinit_size (evalZ v es) (evalZ v ee))
       (evalZ v eisz) (evalZ v ecnt) sub its.

Definition zof_res_nat (x : res nat) : res Z := match x with Ok n => Ok (Z.of_nat n) | Err e => Err e end.

Section ZWalk.
  Variable B : Type.
  Variable negref : bool.               (* is a negative item count refused (Gen/LayoutParams.odo_negative_refused; [false]: the walk before that fix) *)
  Variable zdec : list B -> res Z.      (* int(unpacker.value(counter schema, bytes)), or the exception *)
  Variable r : list B.                  (* the record instance *)

  (* int(self.anchors[name].value(self.instance)): AtomicLocation.value slices instance[start+offset : end+offset] *)
  Definition zodo_count (c : id) (an : zanchors) : res Z :=
    match odo_count_src with
    | CsAnchorValue =>
        match zlookup (KName c) an with
        | None => Err KeyError
        | Some (ZAtom cst cen _) =>
            let v := zenv_val cst cen (Z.of_nat value_default_offset) in
            zdec (pyslice r (evalZ v atomval_lo) (evalZ v atomval_hi))
        | Some _ => Err TypeError
        end
    | CsAttrMaxItems => Ok 0
    end.

  Fixpoint zwalk_with (s : js) (st : Z) (an : zanchors) : res (zloc * zanchors) :=
    match s with
    | JAtom a sz =>
        match dispatch CAtomic with
        | Some CAtomic =>
            let v := zenv_atom st (Z.of_nat sz) in
            let l := ZAtom (zinit_start (evalZ v atom_start) (evalZ v atom_end)) (zinit_end (evalZ v atom_start) (evalZ v atom_end))
                           (zinit_size (evalZ v atom_start) (evalZ v atom_end)) in
            Ok (l, zpost_reg a l an)
        | _ => Err DesignError
        end
    | JArr a n its =>
        match dispatch CArray with
        | Some CArray =>
            match zof_res_nat (arr_count n) with
            | Err e => Err e
            | Ok cnt =>
                match zwalk_with its (evalZ (zenv_arr st 0 cnt) arr_item_start) an with
                | Err e => Err e
                | Ok (sub, an1) =>
                    let l := zarr_loc arr_start arr_end arr_item_size arr_item_count st sub cnt its in Ok (l, zpost_reg a l an1)
                end
            end
        | _ => Err DesignError
        end
    | JOdo a c its =>
        match dispatch CDependsOn with
        | Some CDependsOn =>
            match zodo_count c an with
            | Err e => Err e
            | Ok cnt =>
                (* if maxItems < 0: raise ValueError(...)  - before the items are walked *)
                if negref && (cnt <? 0) then Err ValueError else
                match zwalk_with its (evalZ (zenv_arr st 0 cnt) odo_item_start) an with
                | Err e => Err e
                | Ok (sub, an1) =>
                    let l := zarr_loc odo_start odo_end odo_item_size odo_item_count st sub cnt its in Ok (l, zpost_reg a l an1)
                end
            end
        | Some CArray =>
            match zof_res_nat odo_as_arr_count with
            | Err e => Err e
            | Ok cnt =>
                match zwalk_with its (evalZ (zenv_arr st 0 cnt) arr_item_start) an with
                | Err e => Err e
                | Ok (sub, an1) =>
                    let l := zarr_loc arr_start arr_end arr_item_size arr_item_count st sub cnt its in Ok (l, zpost_reg a l an1)
                end
            end
        | _ => Err DesignError
        end
    | JObj a ps =>
        match dispatch CObject with
        | Some CObject =>
            match zwalk_props_with ps (evalZ (zenv_start st) obj_first_offset) an with
            | Err e => Err e
            | Ok (pls, off, an1) =>
                let v := zenv_obj st off in
                let l := ZObj (zinit_start (evalZ v obj_start) (evalZ v obj_end)) (zinit_end (evalZ v obj_start) (evalZ v obj_end))
                              (zobj_size (evalZ v obj_start) (evalZ v obj_end) pls) pls in
                Ok (l, zpost_reg a l an1)
            end
        | _ => Err DesignError
        end
    | JOne a alts =>
        match dispatch COneOf with
        | Some COneOf =>
            match alts, agg_empty one_agg with
            | ANil, Err e => Err e
            | _, _ =>
                match zwalk_alts_with alts (evalZ (zenv_start st) one_alt_start) an with
                | Err e => Err e
                | Ok (als, an1) =>
                    let v := zenv_one st (zagg one_agg (zsizes_alts als)) in
                    let l := ZOne (zinit_start (evalZ v one_start) (evalZ v one_end)) (zinit_end (evalZ v one_start) (evalZ v one_end))
                                  (zinit_size (evalZ v one_start) (evalZ v one_end)) als in
                    Ok (l, zpost_reg a l an1)
                end
            end
        | _ => Err DesignError
        end
    | JRef k =>
        match dispatch CRefTo with
        | Some CRefTo =>
            let v := zenv_start st in
            Ok (ZRef (zinit_start (evalZ v ref_start) (evalZ v ref_end)) (zinit_end (evalZ v ref_start) (evalZ v ref_end))
                     (zinit_size (evalZ v ref_start) (evalZ v ref_end)) k, an)
        | _ => Err DesignError
        end
    end
  with zwalk_props_with (ps : props) (off : Z) (an : zanchors) : res (zprops * Z * zanchors) :=
    match ps with
    | PNil => Ok (ZPNil, off, an)
    | PCons k p rest =>
        match zwalk_with p (evalZ (zenv_off off) obj_child_start) an with
        | Err e => Err e
        | Ok (pl, an1) =>
            match zwalk_props_with rest (evalZ (zenv_step off (zsize pl)) obj_step) (zloop_reg (js_anchor p) pl an1) with
            | Err e => Err e
            | Ok (rl, off', an2) => Ok (ZPCons k pl rl, off', an2)
            end
        end
    end
  with zwalk_alts_with (alts : jalts) (st : Z) (an : zanchors) : res (zalts * zanchors) :=
    match alts with
    | ANil => Ok (ZANil, an)
    | ACons s rest =>
        match zwalk_with s st an with
        | Err e => Err e
        | Ok (l, an1) =>
            match zwalk_alts_with rest st an1 with
            | Err e => Err e
            | Ok (ls, an2) => Ok (ZACons l ls, an2)
            end
        end
    end.

  (* ---- NDNav ---- *)
  Record znav := mkznav { zn_loc : zloc; zn_an : zanchors }.

  Definition zfrom_instance_with (s : js) (start : Z) : res (zloc * zanchors) :=
    zwalk_with s (evalZ (zenv_start start) from_instance_start) [].

  Definition znav_of_with (s : js) : res znav :=
    match zfrom_instance_with s (Z.of_nat from_instance_default) with Ok (l, an) => Ok (mkznav l an) | Err e => Err e end.

  Fixpoint zfind_prop (k : key) (ps : zprops) : option zloc :=
    match ps with
    | ZPNil => None
    | ZPCons k' l rest => if key_eqb k k' then Some l else zfind_prop k rest
    end.

  Definition znav_name (v : znav) (k : key) : res znav :=
    match zn_loc v with
    | ZObj _ _ _ ps =>
        match zfind_prop k ps with
        | None => Err KeyError
        | Some (ZRef st en sz t) =>
            if name_via_referent
            then match zlookup t (zn_an v) with Some l => Ok (mkznav l (zn_an v)) | None => Err KeyError end
            else Ok (mkznav (ZRef st en sz t) (zn_an v))
        | Some l => Ok (mkznav l (zn_an v))
        end
    | _ => Err TypeError
    end.

  (* NDNav.index: the comparisons are on Python ints: item_count may be negative, and then every index is refused *)
  Definition znav_index_with (v : znav) (i : Z) : res znav :=
    match zn_loc v with
    | ZArr st _ _ isz cnt _ sch =>
        if refused_lowZ index_refuse_low i || refusedZ index_refuse i cnt then Err IndexError
        else match zfrom_instance_with sch (evalZ (zenv_index st isz cnt i) index_start) with
             | Ok (l, an) => Ok (mkznav l an)
             | Err e => Err e
             end
    | _ => Err TypeError
    end.

  Definition znav_step_with (v : znav) (s : step) : res znav :=
    match s with PName k => znav_name v (KName k) | PIndex i => znav_index_with v (Z.of_nat i) end.

  Fixpoint znav_path_with (v : znav) (p : list step) : res znav :=
    match p with
    | [] => Ok v
    | s :: p' => match znav_step_with v s with Ok v' => znav_path_with v' p' | Err e => Err e end
    end.

  (* NDNav.raw: self.instance[<raw_lo> : <raw_hi>] *)
  Definition znav_raw (v : znav) : list B :=
    let ev := zenv_raw (zstart (zn_loc v)) (zend (zn_loc v)) in pyslice r (evalZ ev raw_lo) (evalZ ev raw_hi).

  (* NDNav.value() of an AtomicLocation: the bytes handed to the unpacker *)
  Definition znav_value_bytes (v : znav) : list B :=
    let ev := zenv_val (zstart (zn_loc v)) (zend (zn_loc v)) (Z.of_nat value_default_offset) in
    pyslice r (evalZ ev atomval_lo) (evalZ ev atomval_hi).
End ZWalk.

Arguments zodo_count {B}.
Arguments zwalk_with {B}.
Arguments zwalk_props_with {B}.
Arguments zwalk_alts_with {B}.
Arguments zfrom_instance_with {B}.
Arguments znav_of_with {B}.
Arguments znav_index_with {B}.
Arguments znav_step_with {B}.
Arguments znav_path_with {B}.
Arguments znav_raw {B}.
Arguments znav_value_bytes {B}.

(* ---- the walk as the source is NOW: the sign test on the item count as harness/t1_layout.py found it (or did not) *)
Definition zwalk {B} := @zwalk_with B odo_negative_refused.
Definition zwalk_props {B} := @zwalk_props_with B odo_negative_refused.
Definition zwalk_alts {B} := @zwalk_alts_with B odo_negative_refused.
Definition zfrom_instance {B} := @zfrom_instance_with B odo_negative_refused.
Definition znav_of {B} := @znav_of_with B odo_negative_refused.
Definition znav_index {B} := @znav_index_with B odo_negative_refused.
Definition znav_step {B} := @znav_step_with B odo_negative_refused.
Definition znav_path {B} := @znav_path_with B odo_negative_refused.
