(* End-to-end model of  list(cobol_parser.schema_iter(io.StringIO(text)))  on RAW copybook text
   (src/stingray/cobol_parser.py schema_iter / structure / DDE / JSONSchemaMaker, estruct.py Representation.parse /
   calcsize, schema_instance.py EBCDIC.calcsize), the code as it is now.

   The layers that already have models are IMPORTED, not copied:
     Model/RefFormat.v   reference_format, dde_sentences, compact (DDE.compact_source)
     Model/Clauses.v     clause_dict (the CLAUSES regular expression, the later-wins merge, normalize_picture)
     Model/Structure.v   DDE naming (mk_ddes), structure() (the stack walk, REDEFINES marking), cobol_of
     Model/Picture.v     estruct's picture scanner (dec_normalize), the size loop, digit_groups, count_value (int())
     Model/Estruct.v     calcsize (usage chain, packed / binary size formulas, from Gen/EstructParams.v)
     Model/JsonType.v    JSONSchemaMaker.json_type (usage chain and emitted codes, from Gen/JsonTypeParams.v)
   This file adds what lies between them (the glue) and what nobody had modelled:
     lines_of_text       iteration over io.StringIO(text): lines end at a line feed (newline = the default, no translation)
     info_of             clause dictionary to Structure.entry, plus the clause values the schema maker reads
     forest_of           DDE objects are created lazily, one per sentence, while structure() walks: an exception of
                         clause_dict for sentence k comes after the structure() steps of sentences 1..k-1
     annot               Structure.tree keeps only what structure() reads; the clause values are re-attached to the forest in
                         preorder (C07_structure: the preorder IS the kept entries in source order); every node is checked
                         against its entry, a mismatch is an Unmodelled outcome, never a made-up value
     est_items/est_parse estruct.clause_pattern.finditer over the WHOLE cobol keyword text (level number, data name, every
                         clause) - case-sensitive; the word boundaries are those the pattern HAS (Gen/PipelineParams.v: a
                         negative lookbehind in front of both alternatives, a negative lookahead after the usage word; none
                         of them before the repair of finding K-name-contains-usage): the decoder's second parse of the entry
     calcsize_text       EBCDIC.calcsize = estruct.calcsize(schema cobol text)
     build               JSONSchemaMaker.build_json_schema with EVERY keyword it emits, in dict insertion order.  The maker
                         mutates shared dicts (the REDEFINES branch updates names[parent.unique_name], whichever dict that is
                         at the time), so dicts live in a heap and refer to one another by id, as in Model/Structure.v build.
   Outcome: [Done (Ok docs)] the documents, [Done (Err e)] the exception class raised, [Unmodelled why]:
     1 the clause / picture scanner model ran out of fuel (never: Proofs/ClausesP.v, Proofs/PictureP.v)
     3 a packed-decimal item whose picture carries a two-character sign (DB, CR): Model/Estruct.v calcsize speaks about
       pictures with at most a one-character sign (deliberately partial), so no size is made up for it
     4 json_type emits a keyword value outside the tables of Gen/JsonTypeParams.v
     5 the emitted dicts do not form a finite tree (never)
     6 the forest is not the kept entries in source order (never: C07_structure)
   The judge maps Unmodelled to "skip".

   A string is a list of code points.  JSON documents keep their keys in insertion order. *)
From Coq Require Import NArith List Bool Arith.
Import ListNotations.
Require Import SR.Base.Res.
Require SR.Model.RefFormat SR.Model.Clauses SR.Model.Structure SR.Model.Picture SR.Model.Estruct SR.Model.JsonType.
Require SR.Gen.EstructParams SR.Gen.PipelineParams SR.Gen.StructureParams.
Open Scope N_scope.

Definition str := list N.

(* ------------------------------------------------------------------ outcomes *)
Inductive R (T : Type) := ROk (v : T) | RErr (e : exn) | RUn (why : N).
Arguments ROk {T} v.
Arguments RErr {T} e.
Arguments RUn {T} why.

Definition rbind {T U : Type} (r : R T) (f : T -> R U) : R U :=
  match r with ROk v => f v | RErr e => RErr e | RUn w => RUn w end.

(* ------------------------------------------------------------------ JSON documents *)
Inductive jdoc := JStr (s : str) | JInt (n : N) | JObj (kvs : list (str * jdoc)) | JArr (l : list jdoc).

Inductive outcome := Done (r : res (list jdoc)) | Unmodelled (why : N).

(* ------------------------------------------------------------------ keywords and constant strings *)
Definition k_title : str := [116; 105; 116; 108; 101].
Definition k_anchor : str := [36; 97; 110; 99; 104; 111; 114].                       (* dollar anchor *)
Definition k_cobol : str := [99; 111; 98; 111; 108].
Definition k_type : str := [116; 121; 112; 101].
Definition k_properties : str := [112; 114; 111; 112; 101; 114; 116; 105; 101; 115].
Definition k_items : str := [105; 116; 101; 109; 115].
Definition k_maxItems : str := [109; 97; 120; 73; 116; 101; 109; 115].
Definition k_maxItemsDependsOn : str := [109; 97; 120; 73; 116; 101; 109; 115; 68; 101; 112; 101; 110; 100; 115; 79; 110].
Definition k_oneOf : str := [111; 110; 101; 79; 102].
Definition k_ref : str := [36; 114; 101; 102].                                       (* dollar ref *)
Definition k_contentEncoding : str := [99; 111; 110; 116; 101; 110; 116; 69; 110; 99; 111; 100; 105; 110; 103].
Definition k_conversion : str := [99; 111; 110; 118; 101; 114; 115; 105; 111; 110].
Definition k_minLength : str := [109; 105; 110; 76; 101; 110; 103; 116; 104].
Definition k_maxLength : str := [109; 97; 120; 76; 101; 110; 103; 116; 104].
Definition v_array : str := [97; 114; 114; 97; 121].
Definition v_object : str := [111; 98; 106; 101; 99; 116].
Definition v_string : str := [115; 116; 114; 105; 110; 103].
Definition v_integer : str := [105; 110; 116; 101; 103; 101; 114].
Definition v_number : str := [110; 117; 109; 98; 101; 114].
Definition v_decimal : str := [100; 101; 99; 105; 109; 97; 108].
Definition v_null : str := [110; 117; 108; 108].
Definition v_boolean : str := [98; 111; 111; 108; 101; 97; 110].
Definition v_cp037 : str := [99; 112; 48; 51; 55].
Definition v_packed_decimal : str := [112; 97; 99; 107; 101; 100; 45; 100; 101; 99; 105; 109; 97; 108].
Definition v_bigendian_int : str := [98; 105; 103; 101; 110; 100; 105; 97; 110; 45; 105; 110; 116].
Definition v_bigendian_float : str := [98; 105; 103; 101; 110; 100; 105; 97; 110; 45; 102; 108; 111; 97; 116].
Definition v_bigendian_double : str := [98; 105; 103; 101; 110; 100; 105; 97; 110; 45; 100; 111; 117; 98; 108; 101].
Definition w_USAGE : str := [85; 83; 65; 71; 69].
Definition w_IS : str := [73; 83].
Definition w_PIC : str := [80; 73; 67].
Definition w_PICTURE : str := [80; 73; 67; 84; 85; 82; 69].

(* the usage alternation of estruct.clause_pattern, in the order of the pattern text (read from the source on every run:
   Gen/PipelineParams.v); the position of a word is the usage number of Gen/EstructParams.v and Gen/JsonTypeParams.v:
   0 BINARY 1 COMPUTATIONAL-1 2 COMPUTATIONAL-2 3 COMPUTATIONAL-3 4 COMPUTATIONAL-4 5 COMPUTATIONAL 6 COMP-1 7 COMP-2 8 COMP-3
   9 COMP-4 10 COMP 11 DISPLAY 12 PACKED-DECIMAL (Proofs/PipelineP.v est_words_numbering checks that the source still has them
   in this order) *)
Definition est_usage_words : list str := SR.Gen.PipelineParams.est_usage_words.
Definition est_pic_words : list str := SR.Gen.PipelineParams.est_pic_words.
(* the word boundaries of the pattern, read from the source as well: is there a negative lookbehind in front of the whole
   alternation / a negative lookahead behind the usage alternation, and the character class of each (code-point ranges) *)
Record est_bounds := { eb_before : bool; eb_before_class : list (N * N); eb_after : bool; eb_after_class : list (N * N) }.
Definition est_bounds_now : est_bounds :=
  {| eb_before := SR.Gen.PipelineParams.est_kw_boundary_before; eb_before_class := SR.Gen.PipelineParams.est_before_class;
     eb_after := SR.Gen.PipelineParams.est_usage_boundary_after; eb_after_class := SR.Gen.PipelineParams.est_after_class |}.
(* the pattern before the repair: no assertion at all *)
Definition est_bounds_old : est_bounds := {| eb_before := false; eb_before_class := []; eb_after := false; eb_after_class := [] |}.
Definition usage_DISPLAY : N := 11.

(* ------------------------------------------------------------------ small helpers *)
Definition is_some {T : Type} (o : option T) : bool := match o with Some _ => true | None => false end.

Definition optstr_eqb (a b : option str) : bool :=
  match a, b with
  | None, None => true
  | Some x, Some y => SR.Model.Structure.str_eqb x y
  | _, _ => false
  end.

Definition entry_eqb (a b : SR.Model.Structure.entry) : bool :=
  SR.Model.Structure.lvl_eqb (SR.Model.Structure.elv a) (SR.Model.Structure.elv b) && optstr_eqb (SR.Model.Structure.ename a) (SR.Model.Structure.ename b) && optstr_eqb (SR.Model.Structure.efill a) (SR.Model.Structure.efill b)
  && optstr_eqb (SR.Model.Structure.eredef a) (SR.Model.Structure.eredef b) && Bool.eqb (SR.Model.Structure.epic a) (SR.Model.Structure.epic b) && Bool.eqb (SR.Model.Structure.eocc a) (SR.Model.Structure.eocc b)
  && SR.Model.Structure.str_eqb (SR.Model.Structure.etext a) (SR.Model.Structure.etext b).

(* position of w in l (exact comparison) *)
Fixpoint index_of (w : str) (l : list str) (i : N) : option N :=
  match l with
  | [] => None
  | x :: r => if SR.Model.Structure.str_eqb x w then Some i else index_of w r (i + 1)
  end.

(* ------------------------------------------------------------------ text to lines *)
(* for line in io.StringIO(text): a line ends after a line feed; the last line may lack one.  cur = the current line, reversed *)
Fixpoint lines_go (cur : str) (s : str) : list str :=
  match s with
  | [] => match cur with [] => [] | _ :: _ => [rev cur] end
  | c :: t => if c =? 10 then rev (c :: cur) :: lines_go [] t else lines_go (c :: cur) t
  end.
Definition lines_of_text (text : str) : list str := lines_go [] text.

(* dde_sentences(reference_format(source)): the generator chain is consumed by the first next(); an exception of
   reference_format (RuntimeError: no code line; ValueError: COPY) surfaces there *)
Definition sentences_of_text (text : str) : res (list (SR.Model.RefFormat.line * SR.Model.RefFormat.line)) :=
  match SR.Model.RefFormat.reference_format (lines_of_text text) [] with
  | Ok ls => Ok (SR.Model.RefFormat.dde_sentences ls)
  | Err e => Err e
  end.

(* ------------------------------------------------------------------ clause dictionary to DDE fields *)
(* what DDE.__init__, structure() and the schema maker read of one sentence *)
Record info := {
  i_entry : SR.Model.Structure.entry;            (* level, name, filler, redefines, picture / occurs presence, compact_source *)
  i_usage : option str;          (* clauses.get(usage), as written *)
  i_pic : option str;            (* clauses.get(picture) *)
  i_occ : option str;            (* clauses.get(occurs_maxitems) *)
  i_dep : option str             (* clauses.get(depending_on) *)
}.

(* the level group is two characters matched by the digit class *)
Definition lvl_of (lv : SR.Model.RefFormat.line) : SR.Model.Structure.lvl := match lv with [a; b] => (a, b) | _ => (0, 0) end.

Definition info_of (lv cl : SR.Model.RefFormat.line) (r : SR.Model.Clauses.clause_record) : info :=
  let d := SR.Model.Clauses.cr_dict r in
  {| i_entry := {| SR.Model.Structure.elv := lvl_of lv;
                   SR.Model.Structure.ename := SR.Model.Clauses.get SR.Model.Clauses.KName d;
                   SR.Model.Structure.efill := SR.Model.Clauses.get SR.Model.Clauses.KFiller d;
                   SR.Model.Structure.eredef := SR.Model.Clauses.get SR.Model.Clauses.KRedefines d;
                   SR.Model.Structure.epic := is_some (SR.Model.Clauses.get SR.Model.Clauses.KPicture d);
                   SR.Model.Structure.eocc := is_some (SR.Model.Clauses.get SR.Model.Clauses.KOccurs d) || is_some (SR.Model.Clauses.get SR.Model.Clauses.KOdoMax d);
                   SR.Model.Structure.etext := SR.Model.RefFormat.compact cl |};
     i_usage := SR.Model.Clauses.get SR.Model.Clauses.KUsage d;
     i_pic := SR.Model.Clauses.get SR.Model.Clauses.KPicture d;
     i_occ := SR.Model.Clauses.get SR.Model.Clauses.KOccurs d;
     i_dep := SR.Model.Clauses.get SR.Model.Clauses.KDepending d |}.

(* one DDE per sentence, in order, up to the first sentence whose clause_dict raises (normalize_picture: IndexError,
   ValueError) or leaves the model *)
Inductive stop := SDone | SErr (e : exn) | SUn (why : N).

Fixpoint infos (ss : list (SR.Model.RefFormat.line * SR.Model.RefFormat.line)) : list info * stop :=
  match ss with
  | [] => ([], SDone)
  | (lv, cl) :: r =>
      match SR.Model.Clauses.clause_dict cl with
      | None => ([], SUn 1)
      | Some (Err e) => ([], SErr e)
      | Some (Ok rec) => let (l, st) := infos r in (info_of lv cl rec :: l, st)
      end
  end.

(* structure(sentences): node k is created (clause_dict) after the steps of nodes 1..k-1, so an error of a step among
   the good prefix wins over the error of sentence k; with no good prefix the first next() raises *)
Definition forest_of (ss : list (SR.Model.RefFormat.line * SR.Model.RefFormat.line)) : R (list SR.Model.Structure.tree * list info) :=
  let (xs, st) := infos ss in
  let es := map i_entry xs in
  match st with
  | SDone => match SR.Model.Structure.structure es with Ok f => ROk (f, xs) | Err e => RErr e end
  | SErr e => match es with
              | [] => RErr e
              | _ :: _ => match SR.Model.Structure.structure es with Err e' => RErr e' | Ok _ => RErr e end
              end
  | SUn w => match es with
             | [] => RUn w
             | _ :: _ => match SR.Model.Structure.structure es with Err e' => RErr e' | Ok _ => RUn w end
             end
  end.

(* ------------------------------------------------------------------ the forest with its clause values *)
(* mutual inductives (not lists nested in an inductive): every recursive function below is a top-level mutual Fixpoint *)
Inductive xtree := XNode (d : SR.Model.Structure.dde) (based : bool) (x : info) (kids : xforest)
with xforest := XNil | XCons (t : xtree) (r : xforest).

Scheme xtree_mut := Induction for xtree Sort Prop
with xforest_mut := Induction for xforest Sort Prop.
Combined Scheme xtree_xforest_ind from xtree_mut, xforest_mut.

Definition xdde (t : xtree) : SR.Model.Structure.dde := match t with XNode d _ _ _ => d end.
Definition xinfo (t : xtree) : info := match t with XNode _ _ x _ => x end.
Definition xkids (t : xtree) : xforest := match t with XNode _ _ _ k => k end.

(* clauses.get(redefines) of the finished node (structure() overwrites it on the base item) *)
Definition xeff_redef (t : xtree) : option str :=
  match t with XNode d b _ _ => if b then Some (SR.Model.Structure.dde_name (SR.Model.Structure.de d)) else SR.Model.Structure.eredef (SR.Model.Structure.de d) end.

(* node.level in the skipped levels of structure() (66, 77, 88 in the source as it is: Gen/StructureParams.v) *)
Definition info_skipped (x : info) : bool :=
  existsb (SR.Model.Structure.lvl_eqb (SR.Model.Structure.elv (i_entry x))) SR.Gen.StructureParams.skipped_levels.

(* the entries that become nodes: the first one, and the later ones whose level is not 66, 77, 88 *)
Definition kept_infos (xs : list info) : list info :=
  match xs with [] => [] | x :: r => x :: filter (fun y => negb (info_skipped y)) r end.

(* the clause values are handed out in preorder; every node is checked against its entry *)
Definition annot_list (F : SR.Model.Structure.tree -> list info -> option (xtree * list info)) :=
  fix go (ks : list SR.Model.Structure.tree) (xs : list info) : option (xforest * list info) :=
    match ks with
    | [] => Some (XNil, xs)
    | k :: ks' =>
        match F k xs with
        | None => None
        | Some (k', xs') =>
            match go ks' xs' with
            | None => None
            | Some (r, xs'') => Some (XCons k' r, xs'')
            end
        end
    end.

Fixpoint annot (t : SR.Model.Structure.tree) (xs : list info) : option (xtree * list info) :=
  match t with
  | SR.Model.Structure.TNode d b kids =>
      match xs with
      | [] => None
      | x :: xs1 =>
          if entry_eqb (SR.Model.Structure.de d) (i_entry x) then
            match annot_list annot kids xs1 with
            | Some (kids', rest) => Some (XNode d b x kids', rest)
            | None => None
            end
          else None
      end
  end.

Fixpoint annot_forest (f : list SR.Model.Structure.tree) (xs : list info) : option (list xtree) :=
  match f with
  | [] => match xs with [] => Some [] | _ :: _ => None end
  | t :: f' =>
      match annot t xs with
      | None => None
      | Some (t', xs') => match annot_forest f' xs' with Some r => Some (t' :: r) | None => None end
      end
  end.

(* ------------------------------------------------------------------ estruct: the second parse of the entry *)
(* clause_pattern = B ( (USAGE ws+)? (IS ws+)? usage-word A | (PIC|PICTURE) ws+ (IS ws+)? nonwhite+ )   -- no flags: case-sensitive.
   B = (?<![class]) : the character in front of the match, when there is one, is not in the class (also in front of PIC);
   A = (?![class])  : the character behind the usage word, when there is one, is not in the class.  The usage words form an
   ORDERED alternation: when the assertion fails behind one word the matcher tries the next word (COMP-3X: COMP-3 fails on X,
   COMP fails on the hyphen), then the shorter choices of the optional words.  Both assertions are present or absent as the
   source has them (the section variable b; est_bounds_now for the source as it is).  finditer over the whole format string. *)
Fixpoint lit_cs (w s : str) : option str :=
  match w with
  | [] => Some s
  | x :: w' => match s with
               | [] => None
               | c :: t => if c =? x then lit_cs w' t else None
               end
  end.

(* one or more white-space characters (greedy; what follows is never white space, so nothing is given back) *)
Definition ws1 (s : str) : option str :=
  match SR.Model.Clauses.span SR.Model.Clauses.is_ws s with
  | ([], _) => None
  | (_ :: _, r) => Some r
  end.

Definition word_ws (w s : str) : option str :=
  match lit_cs w s with Some r => ws1 r | None => None end.

(* the places where the rest may start after an optional  W ws+ , in the order the matcher tries them *)
Definition opt_word_ws (w s : str) : list str :=
  match word_ws w s with Some r => [r; s] | None => [s] end.

Definition in_ranges (c : N) (rs : list (N * N)) : bool := existsb (fun r => (fst r <=? c) && (c <=? snd r)) rs.

(* (IS ws+)? nonwhite+ : the optional group is given up when nothing follows it *)
Definition est_pic_body (s : str) : option (str * str) :=
  match (match word_ws w_IS s with Some r => SR.Model.Clauses.nonws1 r | None => None end) with
  | Some x => Some x
  | None => SR.Model.Clauses.nonws1 s
  end.

Definition est_alt_picture (s : str) : option (str * str) :=
  SR.Model.Clauses.first_some (fun w => match word_ws w s with Some r => est_pic_body r | None => None end) est_pic_words.

Inductive est_item := EUsage (u : N) | EPicture (p : str).

Section Bounds.
Variable b : est_bounds.

(* the negative lookbehind: prev = the character in front of the position (None at the start of the string) *)
Definition est_before_ok (prev : option N) : bool :=
  match prev with
  | None => true
  | Some c => negb (eb_before b && in_ranges c (eb_before_class b))
  end.

(* the negative lookahead behind a usage word *)
Definition est_after_ok (rest : str) : bool :=
  match rest with
  | [] => true
  | c :: _ => negb (eb_after b && in_ranges c (eb_after_class b))
  end.

Fixpoint est_usage_from_b (ws : list str) (i : N) (s : str) : option (N * str) :=
  match ws with
  | [] => None
  | w :: r => match lit_cs w s with
              | Some rest => if est_after_ok rest then Some (i, rest) else est_usage_from_b r (i + 1) s
              | None => est_usage_from_b r (i + 1) s
              end
  end.

Definition est_usage_at_b (s : str) : option (N * str) := est_usage_from_b est_usage_words 0 s.

Definition est_alt_usage_b (s : str) : option (N * str) :=
  SR.Model.Clauses.first_some est_usage_at_b (flat_map (opt_word_ws w_IS) (opt_word_ws w_USAGE s)).

Definition est_token_at_b (prev : option N) (s : str) : option (est_item * str) :=
  if est_before_ok prev then
    match est_alt_usage_b s with
    | Some (u, r) => Some (EUsage u, r)
    | None => match est_alt_picture s with
              | Some (p, r) => Some (EPicture p, r)
              | None => None
              end
    end
  else None.

(* [prev] = the character in front of s in the format string; [skip] = characters of the current match still to be passed
   over (the next search starts where the match ended, and its lookbehind sees the last character of that match) *)
Fixpoint est_scan_b (prev : option N) (skip : nat) (s : str) : list est_item :=
  match s with
  | [] => []
  | c :: t =>
      match skip with
      | S k => est_scan_b (Some c) k t
      | O =>
          match est_token_at_b prev s with
          | Some (i, rest) => i :: est_scan_b (Some c) (length t - length rest) t
          | None => est_scan_b (Some c) 0 t
          end
      end
  end.

Definition est_items_b (format : str) : list est_item := est_scan_b None 0 format.
End Bounds.

(* the source as it is *)
Definition est_usage_from := est_usage_from_b est_bounds_now.
Definition est_usage_at := est_usage_at_b est_bounds_now.
Definition est_alt_usage := est_alt_usage_b est_bounds_now.
Definition est_token_at := est_token_at_b est_bounds_now.
Definition est_scan := est_scan_b est_bounds_now.
Definition est_items (format : str) : list est_item := est_items_b est_bounds_now format.

(* the loop of Representation.parse: the last usage and the last picture win; every picture goes through
   normalize_picture at once (ValueError) *)
Fixpoint est_loop (l : list est_item) (u : N) (pic : list SR.Model.Picture.elt) : R (N * list SR.Model.Picture.elt) :=
  match l with
  | [] => ROk (u, pic)
  | EUsage v :: r => est_loop r v pic
  | EPicture p :: r =>
      match SR.Model.Picture.dec_normalize p with
      | None => RUn 1
      | Some (Err e) => RErr e
      | Some (Ok es) => est_loop r u es
      end
  end.

(* estruct.calcsize(format), after the scan *)
Definition calcsize_items (items : list est_item) : R N :=
  rbind (est_loop items usage_DISPLAY []) (fun up =>
    let (u, es) := up in
    match SR.Model.Picture.size_loop es 0 with
    | Err e => RErr e                                         (* DesignError: an element without text, 9(0) *)
    | Ok size =>
        let sl := length (SR.Model.Picture.g_sign (SR.Model.Picture.digit_groups es)) in  (* len(digit_groups[0]) *)
        let two := (2 <=? sl)%nat in
        if two && SR.Model.Estruct.mem u SR.Gen.EstructParams.calc_packed && negb (SR.Model.Estruct.mem u SR.Gen.EstructParams.calc_display) && negb (Nat.eqb size 0) then RUn 3
        else
          let p := if two then SR.Model.Estruct.mkpic false size 0 else SR.Model.Estruct.mkpic (Nat.eqb sl 1) (size - sl) 0 in
          match SR.Model.Estruct.calcsize u p with
          | Ok n => ROk n
          | Err e => RErr e
          end
    end).

(* estruct.calcsize(format) *)
Definition calcsize_text (format : str) : R N := calcsize_items (est_items format).
(* the same with other word boundaries in the pattern (est_bounds_old: the pattern before the repair) *)
Definition calcsize_text_b (b : est_bounds) (format : str) : R N := calcsize_items (est_items_b b format).

(* ------------------------------------------------------------------ json_type *)
(* str.upper() maps exactly the characters 9 P S V p s v and U+017F into the set S V P 9; Model/JsonType.v upper-cases
   ASCII only, so U+017F is handed over as the letter s *)
Definition long_s (c : N) : N := if c =? 383 then 115 else c.

Definition type_kv (t : N) : R (list (str * str)) :=
  match t with
  | 0 => ROk []
  | 1 => ROk [(k_type, v_string)] | 2 => ROk [(k_type, v_integer)] | 3 => ROk [(k_type, v_number)]
  | 4 => ROk [(k_type, v_decimal)] | 5 => ROk [(k_type, v_array)] | 6 => ROk [(k_type, v_object)]
  | 7 => ROk [(k_type, v_null)] | 8 => ROk [(k_type, v_boolean)]
  | _ => RUn 4
  end.
Definition enc_kv (e : N) : R (list (str * str)) :=
  match e with
  | 0 => ROk []
  | 1 => ROk [(k_contentEncoding, v_cp037)] | 2 => ROk [(k_contentEncoding, v_packed_decimal)]
  | 3 => ROk [(k_contentEncoding, v_bigendian_int)] | 4 => ROk [(k_contentEncoding, v_bigendian_float)]
  | 5 => ROk [(k_contentEncoding, v_bigendian_double)]
  | _ => RUn 4
  end.
Definition conv_kv (c : N) : R (list (str * str)) :=
  match c with
  | 0 => ROk []
  | 6 => ROk [(k_conversion, v_decimal)]
  | _ => RUn 4
  end.

(* usage = clauses.get(usage, DISPLAY), compared with upper-case literals: an as-written spelling in another letter
   case is in no set (DesignError) *)
Definition usage_number (x : info) : N :=
  match i_usage x with
  | None => usage_DISPLAY
  | Some w => match index_of w est_usage_words 0 with Some i => i | None => 99 end
  end.

Definition json_type_kvs (x : info) : R (list (str * str)) :=
  let txt := match i_pic x with Some p => map long_s p | None => [] end in
  match SR.Model.JsonType.json_type (usage_number x) txt with
  | Err e => RErr e
  | Ok (t, e, c) =>
      rbind (type_kv t) (fun a => rbind (enc_kv e) (fun b => rbind (conv_kv c) (fun d => ROk (a ++ b ++ d))))
  end.

(* ------------------------------------------------------------------ the schema maker *)
(* dict values; a nested dict or list element is a reference into the heap *)
Inductive val := VStr (s : str) | VInt (n : N) | VObj (id : nat) | VArr (ids : list nat).
Definition dict := list (str * val).
Record mst := { heap : list dict; names : list (str * nat) }.

Fixpoint dget (key : str) (d : dict) : option val :=
  match d with
  | [] => None
  | (k, v) :: r => if SR.Model.Structure.str_eqb k key then Some v else dget key r
  end.

(* d[key] = v on an insertion-ordered dict *)
Fixpoint dset (key : str) (v : val) (d : dict) : dict :=
  match d with
  | [] => [(key, v)]
  | (k, old) :: r => if SR.Model.Structure.str_eqb k key then (k, v) :: r else (k, old) :: dset key v r
  end.

Definition hget (id : nat) (s : mst) : dict := nth id (heap s) [].
Definition hupd (id : nat) (f : dict -> dict) (s : mst) : mst :=
  {| heap := SR.Model.Structure.list_upd id f (heap s); names := names s |}.
Definition alloc (d : dict) (s : mst) : nat * mst :=
  (length (heap s), {| heap := heap s ++ [d]; names := names s |}).
(* self.names[key] = the dict id; new bindings in front, the first hit is the current one *)
Definition reg (key : str) (id : nat) (s : mst) : mst := {| heap := heap s; names := (key, id) :: names s |}.
Definition nlookup (key : str) (s : mst) : option nat := SR.Model.Structure.lookup key (names s).

Definition strs (l : list (str * str)) : dict := map (fun kv => (fst kv, VStr (snd kv))) l.

Definition redef_key (tgt : str) : str := SR.Model.Structure.REDEFINES_dash ++ tgt.

(* REDEFINES branch, before the alternative is built:
     parent_schema = self.names[parent.unique_name]
     if base_def_name not in parent_schema[properties]: parent_schema[properties][base_def_name] = a new oneOf dict
   answer: the id of parent_schema[properties] *)
Definition redef_pre (parent_uname tgt : str) (s : mst) : R (nat * mst) :=
  match nlookup parent_uname s with
  | None => RErr KeyError
  | Some pid =>
      match dget k_properties (hget pid s) with
      | None => RErr KeyError                                  (* an OCCURS array, an elementary item *)
      | Some (VObj ppid) =>
          let key := redef_key tgt in
          match dget key (hget ppid s) with
          | Some _ => ROk (ppid, s)
          | None =>
              let (oid, s1) := alloc [(k_oneOf, VArr []); (k_anchor, VStr key)] s in
              ROk (ppid, hupd ppid (dset key (VObj oid)) s1)
          end
      | Some _ => RErr TypeError
      end
  end.

(* after the alternative rid is built:
     parent_schema[properties][base_def_name][oneOf].append(redef); return the placeholder *)
Definition redef_post (ppid : nat) (tgt : str) (rid : nat) (d : SR.Model.Structure.dde) (s : mst) : R (nat * mst) :=
  match dget (redef_key tgt) (hget ppid s) with
  | None => RErr KeyError
  | Some (VObj oid) =>
      match dget k_oneOf (hget oid s) with
      | None => RErr KeyError                                  (* a property that happens to be called REDEFINES-x *)
      | Some (VArr l) =>
          let s1 := hupd oid (dset k_oneOf (VArr (l ++ [rid]))) s in
          ROk (alloc [(k_title, VStr (SR.Model.Structure.dde_name (SR.Model.Structure.de d))); (k_cobol, VStr (SR.Model.Structure.cobol_of d));
                      (k_ref, VStr (35 :: SR.Model.Structure.du d))] s1)
      | Some _ => RErr AttributeError
      end
  | Some _ => RErr TypeError
  end.

(* maxItemsDependsOn / maxItems of the array branch *)
Definition max_items (x : info) (s : mst) : R ((str * val) * mst) :=
  match i_dep x with
  | Some dep => let (rid, s1) := alloc [(k_ref, VStr (35 :: dep))] s in ROk ((k_maxItemsDependsOn, VObj rid), s1)
  | None =>
      match i_occ x with
      | Some ds => ROk ((k_maxItems, VInt (SR.Model.Picture.count_value ds)), s)       (* int() of a run of decimal digits *)
      | None => RErr TypeError                                           (* int(None); the pattern sets both or neither *)
      end
  end.

(* build_json_schema(k) for a child k of the node whose unique_name is un: the REDEFINES branch wraps the plain
   build bk of k (the call with ignore_redefines=True) *)
Definition child_wrap (un : str) (k : xtree) (bk : mst -> R (nat * mst)) (s : mst) : R (nat * mst) :=
  match xeff_redef k with
  | Some tgt =>
      rbind (redef_pre un tgt s) (fun ps1 =>
      rbind (bk (snd ps1)) (fun rs2 =>
      redef_post (fst ps1) tgt (fst rs2) (xdde k) (snd rs2)))
  | None => bk s
  end.

(* build_json_schema(node, ignore_redefines=True), also the call on a root (no parent); answer: the id of the returned dict.
     build          one node
     build_grp      the loop of the group branch: every child is inserted into properties (dict pid) as it is built
     build_occ      the dict comprehension of the OCCURS group branch: the properties are collected in acc and become
                    visible only afterwards *)
Fixpoint build (t : xtree) (s : mst) : R (nat * mst) :=
  match t with
  | XNode d _ x kids =>
      let name := SR.Model.Structure.dde_name (SR.Model.Structure.de d) in
      let un := SR.Model.Structure.du d in
      let cobol := SR.Model.Structure.cobol_of d in
      if SR.Model.Structure.eocc (SR.Model.Structure.de d) then
        (* OCCURS: an array; the items dict of the literal is replaced at the end *)
        let (eid, s0) := alloc [] s in
        rbind (max_items x s0) (fun ms =>
        let (id, s2) := alloc (strs [(k_title, name); (k_cobol, cobol); (k_type, v_array)] ++ [(k_items, VObj eid); fst ms])
                              (snd ms) in
        let s3 := reg un id s2 in
        if SR.Model.Structure.epic (SR.Model.Structure.de d) then
          rbind (json_type_kvs x) (fun jt =>
          let (bid, s4) := alloc (strs ([(k_anchor, un); (k_cobol, cobol)] ++ jt)) s3 in
          let (pid, s5) := alloc [(un, VObj bid)] s4 in
          let (cid, s6) := alloc [(k_type, VStr v_object); (k_properties, VObj pid)] s5 in
          ROk (id, reg un id (hupd id (dset k_items (VObj cid)) s6)))
        else
          let s4 := hupd id (dset k_anchor (VStr un)) s3 in
          rbind (build_occ un kids [] s4) (fun ps5 =>
          let (pid, s6) := alloc (fst ps5) (snd ps5) in
          let (cid, s7) := alloc [(k_type, VStr v_object); (k_properties, VObj pid)] s6 in
          ROk (id, reg un id (hupd id (dset k_items (VObj cid)) s7))))
      else
        match kids with
        | XCons _ _ =>
            (* group *)
            let (pid, s1) := alloc [] s in
            let (id, s2) := alloc (strs [(k_title, name); (k_anchor, un); (k_cobol, cobol); (k_type, v_object)]
                                   ++ [(k_properties, VObj pid)]) s1 in
            let s3 := reg un id s2 in
            rbind (build_grp un kids pid s3) (fun s4 => ROk (id, reg un id s4))
        | XNil =>
            (* elementary: json_type, then the size from the decoder's own parse of the cobol text *)
            rbind (json_type_kvs x) (fun jt =>
            rbind (calcsize_text cobol) (fun n =>
            let (id, s1) := alloc (strs ([(k_title, name); (k_anchor, un); (k_cobol, cobol)] ++ jt)
                                   ++ [(k_maxLength, VInt n); (k_minLength, VInt n)]) s in
            ROk (id, reg un id s1)))
        end
  end
with build_grp (un : str) (ks : xforest) (pid : nat) (s : mst) : R mst :=
  match ks with
  | XNil => ROk s
  | XCons k ks' =>
      rbind (child_wrap un k (build k) s) (fun cs =>
      build_grp un ks' pid (hupd pid (dset (SR.Model.Structure.du (xdde k)) (VObj (fst cs))) (snd cs)))
  end
with build_occ (un : str) (ks : xforest) (acc : dict) (s : mst) : R (dict * mst) :=
  match ks with
  | XNil => ROk (acc, s)
  | XCons k ks' =>
      rbind (child_wrap un k (build k) s) (fun cs =>
      build_occ un ks' (dset (SR.Model.Structure.du (xdde k)) (VObj (fst cs)) acc) (snd cs))
  end.

(* the dict behind an id as a document; fuel = number of dicts + 1 (every dict is stored exactly once) *)
Fixpoint map_opt {X Y : Type} (f : X -> option Y) (l : list X) : option (list Y) :=
  match l with
  | [] => Some []
  | x :: r => match f x with
              | None => None
              | Some y => match map_opt f r with Some t => Some (y :: t) | None => None end
              end
  end.

Fixpoint reify (fuel : nat) (h : list dict) (id : nat) : option jdoc :=
  match fuel with
  | O => None
  | S f =>
      match nth_error h id with
      | None => None
      | Some d =>
          option_map JObj
            (map_opt (fun kv =>
                        match snd kv with
                        | VStr x => Some (fst kv, JStr x)
                        | VInt n => Some (fst kv, JInt n)
                        | VObj i => option_map (fun v => (fst kv, v)) (reify f h i)
                        | VArr ids => option_map (fun l => (fst kv, JArr l)) (map_opt (reify f h) ids)
                        end) d)
      end
  end.

(* maker.jsonschema(record): names = {} *)
Definition build_tree (t : xtree) : R jdoc :=
  rbind (build t {| heap := []; names := [] |}) (fun r =>
    match reify (S (length (heap (snd r)))) (heap (snd r)) (fst r) with
    | Some doc => ROk doc
    | None => RUn 5
    end).

(* list(schemas): one document per tree, lazily; the first exception ends it *)
Fixpoint build_all (f : list xtree) : R (list jdoc) :=
  match f with
  | [] => ROk []
  | t :: f' => rbind (build_tree t) (fun doc => rbind (build_all f') (fun r => ROk (doc :: r)))
  end.

(* ------------------------------------------------------------------ the whole chain *)
Definition docs_of_sentences (ss : list (SR.Model.RefFormat.line * SR.Model.RefFormat.line)) : R (list jdoc) :=
  rbind (forest_of ss) (fun fx =>
    match annot_forest (fst fx) (kept_infos (snd fx)) with
    | None => RUn 6
    | Some xf => build_all xf
    end).

Definition to_outcome (r : R (list jdoc)) : outcome :=
  match r with ROk docs => Done (Ok docs) | RErr e => Done (Err e) | RUn w => Unmodelled w end.

(* list(schema_iter(io.StringIO(text))) *)
Definition schemas_of_text (text : str) : outcome :=
  match sentences_of_text text with
  | Err e => Done (Err e)
  | Ok ss => to_outcome (docs_of_sentences ss)
  end.

(* the clause layer alone: the DDE fields of every sentence of the text (what Layer B is run on) *)
Definition entries_of_text (text : str) : R (list SR.Model.Structure.entry) :=
  match sentences_of_text text with
  | Err e => RErr e
  | Ok ss => match infos ss with
             | (xs, SDone) => ROk (map i_entry xs)
             | (_, SErr e) => RErr e
             | (_, SUn w) => RUn w
             end
  end.
