(* C11, first half - a HEAP model of what USING the library does to the caller's objects.

   Why a heap: the property says that loading and using a schema never changes the JSON Schema document or the loaded schema.
   In a functional model that is true by construction (a Gallina value cannot be written to), so the objects, their identity
   and the writes have to be modelled explicitly.  The style is that of the schema maker's heap in Model/Pipeline.v
   (objects in a list, referred to by position, alloc appends); here every object also carries the REGION it belongs to.

   OBJECTS.  An object has an identity (oid = position in the heap), a kind (dict, list, instance of a class) and slots:
   dict items / list elements / instance attributes, as an association list in insertion order whose values may be references.

   REGIONS (who owns the object - ghost state, never read by the library):
     RDoc    the caller's JSON document: the root dict and everything reachable from it (doc_closed below)
     RNode   the loaded schema: the Schema wrappers and the dicts / lists that hold their children (ObjectSchema.properties,
             OneOfSchema.alternatives).  A Schema wrapper holds the document BY REFERENCE in its slot _attributes.
     RLib    library-owned objects: unpackers, workbooks, sheets, rows, SchemaMaker (name_cache, fixup_list), LocationMaker
             (anchors), Location trees, navigators - and every object while the call that allocates it is still running
     RClass  process-wide objects: classes, class attributes (SchemaMaker.ATOMIC, DDE.filler_count), module-level variables

   WHAT A LIBRARY CALL DOES is a list of ACTIONS (the instruction set):
     ARead o                       reads change nothing
     AAlloc k slots                allocate a fresh object (region RLib until released); its identity is new
     AWrite f s base path key v    function f performs its mutation site s: starting from the object base (which must lie where
                                   the root class of s says), follow path (one dereference per element, s_depth s of them),
                                   and set (v = Some x) or delete (v = None) the slot key of the object reached
     ARelease o r                  hand an object allocated during this call to the caller as part of a new document (RDoc) or of
                                   a newly loaded schema (RNode): from the next call on it is protected like any other
   A call (CallLib f) is the entry point's name with the actions that happen until it returns, the writes tagged with the
   function whose body contains the site - so nested calls (dynamic dispatch, properties, dunder methods, callbacks inside the
   scanned modules) need no call graph: whichever function runs, its writes must be sites of ITS summary.  The action lists are
   universally quantified in the theorems: every behaviour that respects the summaries is covered.

   ROOT CLASSES, i.e. what the classification of harness/t1_c11heap.py means here (root_ok):
     FRESH       base was allocated during the current call (mark <= base)
     OWN         base is in RLib
     CLASSLEVEL  base is in RClass
     ALIAS       base is ANY object
     SCHEMANODE  base is a Schema node (RNode) or was allocated during the current call
     REFSLOT     as SCHEMANODE, and the slot written is ref_to
   A summary is CLEAN (site_clean) when every site is FRESH, OWN, CLASSLEVEL or REFSLOT with depth 0.  A deeper write through a
   FRESH / OWN container is not clean: library objects hold references to the caller's objects (C11c_deep_write_refuted).

   No proofs in this file. *)
From Coq Require Import String List Bool Arith ZArith.
Import ListNotations.
Require Import SR.Model.HeapRule.
Open Scope string_scope.
Open Scope list_scope.
Open Scope nat_scope.

(* ------------------------------------------------------------------ objects *)

Definition oid := nat.
Definition key := string.

Inductive val := VNone | VBool (b : bool) | VInt (z : Z) | VStr (s : string) | VRef (o : oid).

Inductive region := RDoc | RNode | RLib | RClass.

Inductive okind := KDict | KList | KInst (cls : string).

Record obj := Obj { o_reg : region; o_kind : okind; o_slots : list (key * val) }.

Definition heap := list obj.

(* mark = size of the heap when the current call began: objects at or above it were allocated by this call *)
Record st := St { hp : heap; mark : nat }.

Definition region_eqb (a b : region) : bool :=
  match a, b with RDoc, RDoc | RNode, RNode | RLib, RLib | RClass, RClass => true | _, _ => false end.

Definition hget (o : oid) (h : heap) : option obj := nth_error h o.

Fixpoint hupd (o : oid) (f : obj -> obj) (h : heap) {struct h} : heap :=
  match h, o with
  | [], _ => []
  | x :: r, 0 => f x :: r
  | x :: r, S o' => x :: hupd o' f r
  end.

(* slots: Python's dict rule - assignment to an existing key keeps its position, a new key goes to the end *)
Fixpoint dget (k : key) (d : list (key * val)) : option val :=
  match d with
  | [] => None
  | (k', v) :: r => if String.eqb k k' then Some v else dget k r
  end.

Fixpoint dset (k : key) (v : val) (d : list (key * val)) : list (key * val) :=
  match d with
  | [] => [(k, v)]
  | (k', v') :: r => if String.eqb k k' then (k', v) :: r else (k', v') :: dset k v r
  end.

Fixpoint ddel (k : key) (d : list (key * val)) : list (key * val) :=
  match d with
  | [] => []
  | (k', v') :: r => if String.eqb k k' then ddel k r else (k', v') :: ddel k r
  end.

Definition wr (k : key) (v : option val) (ob : obj) : obj :=
  Obj (o_reg ob) (o_kind ob) (match v with Some x => dset k x (o_slots ob) | None => ddel k (o_slots ob) end).

Definition set_reg (r : region) (ob : obj) : obj := Obj r (o_kind ob) (o_slots ob).

Definition k_ref_to : key := "ref_to".
Definition k_attributes : key := "_attributes".

(* ------------------------------------------------------------------ summaries *)

Definition root_eqb (a b : root) : bool :=
  match a, b with
  | FRESH, FRESH | OWN, OWN | ALIAS, ALIAS | CLASSLEVEL, CLASSLEVEL | SCHEMANODE, SCHEMANODE | REFSLOT, REFSLOT => true
  | _, _ => false
  end.

Definition site_eqb (a b : site) : bool :=
  root_eqb (s_root a) (s_root b) && Nat.eqb (s_depth a) (s_depth b) && String.eqb (s_name a) (s_name b).

Fixpoint sites (T : table) (f : fname) : list site :=
  match T with
  | [] => []
  | (g, l) :: r => if String.eqb f g then l else sites r f
  end.

Definition site_clean (s : site) : bool :=
  match s_root s with
  | FRESH | OWN | CLASSLEVEL | REFSLOT => Nat.eqb (s_depth s) 0
  | ALIAS | SCHEMANODE => false
  end.

Definition fn_clean (T : table) (f : fname) : bool := forallb site_clean (sites T f).

Definition table_clean (T : table) : bool := forallb (fun e => forallb site_clean (snd e)) T.

(* ------------------------------------------------------------------ actions *)

Inductive act :=
| ARead (o : oid)
| AAlloc (k : okind) (slots : list (key * val))
| AWrite (f : fname) (s : site) (base : oid) (path : list key) (k : key) (v : option val)
| ARelease (o : oid) (r : region).

Record call := Call { c_fn : fname; c_acts : list act }.

(* from base, one dereference per key of the path *)
Fixpoint follow (h : heap) (o : oid) (p : list key) : option oid :=
  match p with
  | [] => match hget o h with Some _ => Some o | None => None end
  | k :: r =>
      match hget o h with
      | Some ob => match dget k (o_slots ob) with Some (VRef o') => follow h o' r | _ => None end
      | None => None
      end
  end.

Definition root_ok (r : root) (s : st) (base : oid) (ob : obj) (k : key) : bool :=
  match r with
  | FRESH => Nat.leb (mark s) base
  | OWN => region_eqb (o_reg ob) RLib
  | CLASSLEVEL => region_eqb (o_reg ob) RClass
  | ALIAS => true
  | SCHEMANODE => region_eqb (o_reg ob) RNode || (Nat.leb (mark s) base)
  | REFSLOT => (region_eqb (o_reg ob) RNode || (Nat.leb (mark s) base)) && String.eqb k k_ref_to
  end.

Definition releasable (r : region) : bool := match r with RDoc | RNode => true | _ => false end.

(* None = the action is not one the summaries allow in this state (or names an object that does not exist) *)
Definition exec_act (T : table) (s : st) (a : act) : option st :=
  match a with
  | ARead o => match hget o (hp s) with Some _ => Some s | None => None end
  | AAlloc k sl => Some (St (hp s ++ [Obj RLib k sl]) (mark s))
  | ARelease o r =>
      if Nat.leb (mark s) o && releasable r
      then match hget o (hp s) with Some _ => Some (St (hupd o (set_reg r) (hp s)) (mark s)) | None => None end
      else None
  | AWrite f si base path k v =>
      if existsb (site_eqb si) (sites T f) && Nat.eqb (length path) (s_depth si)
      then match hget base (hp s) with
           | Some ob =>
               if root_ok (s_root si) s base ob k
               then match follow (hp s) base path with
                    | Some tgt => Some (St (hupd tgt (wr k v) (hp s)) (mark s))
                    | None => None
                    end
               else None
           | None => None
           end
      else None
  end.

Fixpoint exec_acts (T : table) (s : st) (l : list act) : option st :=
  match l with
  | [] => Some s
  | a :: r => match exec_act T s a with Some s' => exec_acts T s' r | None => None end
  end.

(* a call starts by taking the mark *)
Definition exec_call (T : table) (s : st) (c : call) : option st :=
  exec_acts T (St (hp s) (length (hp s))) (c_acts c).

(* a HISTORY: any number of calls, one after the other *)
Fixpoint run (T : table) (s : st) (h : list call) : option st :=
  match h with
  | [] => Some s
  | c :: r => match exec_call T s c with Some s' => run T s' r | None => None end
  end.

(* every function that writes during the call has a clean summary ("no ALIAS-rooted write in the summaries of the calls") *)
Definition act_clean (T : table) (a : act) : bool :=
  match a with AWrite f _ _ _ _ _ => fn_clean T f | _ => true end.
Definition call_clean (T : table) (c : call) : bool := fn_clean T (c_fn c) && forallb (act_clean T) (c_acts c).

(* ------------------------------------------------------------------ the document as a VALUE *)

(* the JSON value reached from a value, to depth n (JCut below that) *)
Inductive jv := JNone | JBool (b : bool) | JInt (z : Z) | JStr (s : string) | JObj (k : okind) (m : list (key * jv)) | JCut.

Fixpoint render (n : nat) (h : heap) (v : val) : jv :=
  match v with
  | VNone => JNone
  | VBool b => JBool b
  | VInt z => JInt z
  | VStr s => JStr s
  | VRef o =>
      match n with
      | 0 => JCut
      | S n' =>
          match hget o h with
          | None => JCut
          | Some ob => JObj (o_kind ob) (map (fun kv => (fst kv, render n' h (snd kv))) (o_slots ob))
          end
      end
  end.

(* DOC is closed: everything a document object refers to is a document object (DOC = all that is reachable from the root) *)
Definition refs_in (h : heap) (r : region) (ob : obj) : Prop :=
  forall k o', In (k, VRef o') (o_slots ob) -> exists ob', hget o' h = Some ob' /\ o_reg ob' = r.
Definition doc_closed (h : heap) : Prop :=
  forall o ob, hget o h = Some ob -> o_reg ob = RDoc -> refs_in h RDoc ob.

(* executable form, for examples *)
Definition refs_inb (h : heap) (r : region) (ob : obj) : bool :=
  forallb (fun kv => match snd kv with
                     | VRef o' => match hget o' h with Some ob' => region_eqb (o_reg ob') r | None => false end
                     | _ => true end) (o_slots ob).
Definition doc_closedb (h : heap) : bool :=
  forallb (fun ob => negb (region_eqb (o_reg ob) RDoc) || refs_inb h RDoc ob) h.

(* ------------------------------------------------------------------ the tie to the second half (Model/Globals.v) *)

Definition is_classlevel (s : site) : bool := root_eqb (s_root s) CLASSLEVEL.

Definition classlevel_sites (T : table) : list (fname * string) :=
  flat_map (fun e => map (fun s => (fst e, s_name s)) (filter is_classlevel (snd e))) T.

(* The process-wide writes that Model/Globals.v accounts for, as a function of the two behaviours it reads from the source
   (Gen/GlobalsParams.v): DDE.__init__ resets and increments DDE.filler_count; structure() resets it at its start iff
   reset_at_start; the extended-vocabulary maker adds to the shared ATOMIC set iff ext_mutates_atomic. *)
Definition globals_classlevel (reset_at_start ext_mutates_atomic : bool) : list (fname * string) :=
  [("cobol_parser.DDE.__init__", "DDE.filler_count=")]
  ++ (if ext_mutates_atomic then [("cobol_parser.JSONSchemaMakerExtendedVocabulary.__init__", "ATOMIC[]")] else [])
  ++ (if reset_at_start then [("cobol_parser.structure", "DDE.filler_count=")] else []).

Definition pair_eqb (a b : fname * string) : bool := String.eqb (fst a) (fst b) && String.eqb (snd a) (snd b).
Definition incl_b (l1 l2 : list (fname * string)) : bool := forallb (fun x => existsb (pair_eqb x) l2) l1.
Definition same_sites (l1 l2 : list (fname * string)) : bool := incl_b l1 l2 && incl_b l2 l1.

(* ------------------------------------------------------------------ entry points and totals *)

(* the entry points of the property: each must have a summary (possibly empty) *)
Definition entry_points : list fname := [
  "schema_instance.SchemaMaker.from_json"; "schema_instance.SchemaMaker.walk_schema"; "schema_instance.SchemaMaker.resolve";
  "schema_instance.Schema.json"; "schema_instance.Schema.print"; "schema_instance.Schema.dump_iter";
  "schema_instance.EBCDIC.nav"; "schema_instance.EBCDIC.calcsize"; "schema_instance.EBCDIC.value";
  "schema_instance.Struct.nav"; "schema_instance.Struct.calcsize"; "schema_instance.Struct.value";
  "schema_instance.TextUnpacker.nav"; "schema_instance.TextUnpacker.calcsize"; "schema_instance.TextUnpacker.value";
  "schema_instance.Delimited.nav"; "schema_instance.Delimited.calcsize"; "schema_instance.Delimited.value";
  "schema_instance.WBUnpacker.nav"; "schema_instance.WBUnpacker.calcsize"; "schema_instance.WBUnpacker.value";
  "schema_instance.LocationMaker.from_instance"; "schema_instance.LocationMaker.from_schema"; "schema_instance.LocationMaker.walk";
  "schema_instance.NDNav.name"; "schema_instance.NDNav.index"; "schema_instance.NDNav.value"; "schema_instance.NDNav.raw";
  "schema_instance.NDNav.dump";
  "schema_instance.DNav.name"; "schema_instance.DNav.index"; "schema_instance.DNav.value"; "schema_instance.DNav.dump";
  "schema_instance.WBNav.name"; "schema_instance.WBNav.index"; "schema_instance.WBNav.value"; "schema_instance.WBNav.dump";
  "workbook.Row.name"; "workbook.Row.values"; "workbook.Sheet.set_schema"; "workbook.Sheet.row_iter";
  "workbook.COBOL_EBCDIC_Sheet.set_schema"; "workbook.COBOL_EBCDIC_Sheet.row_iter";
  "workbook.SchemaLoader.header"; "workbook.SchemaLoader.body"; "workbook.HeadingRowSchemaLoader.header";
  "workbook.ExternalSchemaLoader.load"; "workbook.COBOLSchemaLoader.load";
  "cobol_parser.schema_iter"].

Definition has_summary (T : table) (f : fname) : bool := existsb (fun e => String.eqb f (fst e)) T.

Definition count_root (r : root) (T : table) (m : string) : nat :=
  length (flat_map (fun e => if String.eqb (substring 0 (String.length m + 1) (fst e)) (String.append m ".")
                             then filter (fun s => root_eqb (s_root s) r) (snd e) else []) T).

Definition totals_of (T : table) (m : string) : totals :=
  Totals (count_root OWN T m) (count_root CLASSLEVEL T m) (count_root REFSLOT T m) (count_root SCHEMANODE T m) (count_root ALIAS T m).

Definition totals_eqb (a b : totals) : bool :=
  Nat.eqb (t_own a) (t_own b) && Nat.eqb (t_classlevel a) (t_classlevel b) && Nat.eqb (t_refslot a) (t_refslot b)
  && Nat.eqb (t_schemanode a) (t_schemanode b) && Nat.eqb (t_alias a) (t_alias b).

(* the first site of a given root class in a table (used to exercise the generated table in examples) *)
Fixpoint pick (r : root) (T : table) : option (fname * site) :=
  match T with
  | [] => None
  | (f, l) :: rest =>
      match filter (fun s => root_eqb (s_root s) r) l with
      | s :: _ => Some (f, s)
      | [] => pick r rest
      end
  end.

(* ------------------------------------------------------------------ a small world, for the examples of Props/C11c.v *)

(* 0 document root {type: object, properties: -> 1}     RDoc
   1 {A: -> 2, R: -> 3}                                  RDoc
   2 {title: A, $anchor: A, type: string}                RDoc
   3 {title: R, $ref: #A}                                RDoc
   4 SchemaMaker.ATOMIC (a set)                          RClass
   5 an EBCDIC unpacker that lives as long as the process RLib
   6 AtomicSchema  (_attributes -> 2, ref None, ref_to None)          RNode   } a schema loaded from the document before
   7 RefToSchema   (_attributes -> 3, ref #A, ref_to -> 6)            RNode   } the history starts
   8 dict of properties {A: -> 6, R: -> 7}                            RNode   }
   9 ObjectSchema  (_attributes -> 0, properties -> 8, ref, ref_to)   RNode   }                                        *)
Definition ex_heap : heap := [
  Obj RDoc KDict [("type", VStr "object"); ("properties", VRef 1)];
  Obj RDoc KDict [("A", VRef 2); ("R", VRef 3)];
  Obj RDoc KDict [("title", VStr "A"); ("$anchor", VStr "A"); ("type", VStr "string")];
  Obj RDoc KDict [("title", VStr "R"); ("$ref", VStr "#A")];
  Obj RClass (KInst "set") [("string", VNone); ("integer", VNone)];
  Obj RLib (KInst "EBCDIC") [];
  Obj RNode (KInst "AtomicSchema") [("_attributes", VRef 2); ("ref", VNone); ("ref_to", VNone)];
  Obj RNode (KInst "RefToSchema") [("_attributes", VRef 3); ("ref", VStr "#A"); ("ref_to", VRef 6)];
  Obj RNode KDict [("A", VRef 6); ("R", VRef 7)];
  Obj RNode (KInst "ObjectSchema") [("_attributes", VRef 0); ("properties", VRef 8); ("ref", VNone); ("ref_to", VNone)]].
Definition ex_s0 : st := St ex_heap 0.

(* a table in the shape of the generated one, fixed here so that the examples do not depend on descriptors *)
Definition ex_table : table := [
  ("SchemaMaker.walk_schema", [Site OWN 0 "self.fixup_list[]"; Site OWN 0 "self.name_cache[]"]);
  ("SchemaMaker.resolve", [Site REFSLOT 0 "self.fixup_list[*].ref_to="]);
  ("Schema.__init__", [Site FRESH 0 "self._attributes="; Site FRESH 0 "self.ref="; Site FRESH 0 "self.ref_to="]);
  ("LocationMaker.walk", [Site OWN 0 "self.anchors[]"; Site FRESH 0 "loc.unpacker="]);
  ("EBCDIC.open", [Site OWN 0 "self.the_file="]);
  ("DDE.__init__", [Site CLASSLEVEL 0 "DDE.filler_count="])].

(* SchemaMaker.from_json of the document, then unpacker.nav: allocate a maker with its two containers (10, 11, 12), two Schema
   nodes (13 for A, 14 for R with a forward reference), register them, fix the reference up, hand the nodes over; then a
   LocationMaker (15), its anchors (16), a Location (17), registered under its anchor; and the long-lived unpacker opens a file *)
Definition ex_history : list call := [
  Call "SchemaMaker.walk_schema"
    [ AAlloc (KInst "SchemaMaker") []; AAlloc KDict []; AAlloc KList [];
      ARead 2;
      AAlloc (KInst "AtomicSchema") [];
      AWrite "Schema.__init__" (Site FRESH 0 "self._attributes=") 13 [] "_attributes" (Some (VRef 2));
      AWrite "Schema.__init__" (Site FRESH 0 "self.ref_to=") 13 [] "ref_to" (Some VNone);
      AWrite "SchemaMaker.walk_schema" (Site OWN 0 "self.name_cache[]") 11 [] "A" (Some (VRef 13));
      AAlloc (KInst "RefToSchema") [];
      AWrite "Schema.__init__" (Site FRESH 0 "self._attributes=") 14 [] "_attributes" (Some (VRef 3));
      AWrite "Schema.__init__" (Site FRESH 0 "self.ref_to=") 14 [] "ref_to" (Some VNone);
      AWrite "SchemaMaker.walk_schema" (Site OWN 0 "self.fixup_list[]") 12 [] "0" (Some (VRef 14));
      AWrite "SchemaMaker.resolve" (Site REFSLOT 0 "self.fixup_list[*].ref_to=") 14 [] "ref_to" (Some (VRef 13));
      ARelease 13 RNode; ARelease 14 RNode ];
  Call "LocationMaker.walk"
    [ AAlloc (KInst "LocationMaker") []; AAlloc KDict []; ARead 13;
      AAlloc (KInst "AtomicLocation") [("schema", VRef 13); ("start", VInt 0); ("end", VInt 3)];
      AWrite "LocationMaker.walk" (Site FRESH 0 "loc.unpacker=") 17 [] "unpacker" (Some (VRef 5));
      AWrite "LocationMaker.walk" (Site OWN 0 "self.anchors[]") 16 [] "A" (Some (VRef 17)) ];
  Call "EBCDIC.open"
    [ AWrite "EBCDIC.open" (Site OWN 0 "self.the_file=") 5 [] "the_file" (Some (VInt 3)) ]].

(* tables with ONE unclean site each, and the history that uses it *)
Definition bad_alias_table : table := [("Schema.json", [Site ALIAS 1 "self._attributes[]"])].
Definition bad_alias_history : list call :=
  [Call "Schema.json" [AWrite "Schema.json" (Site ALIAS 1 "self._attributes[]") 6 ["_attributes"] "_size" (Some (VInt 3))]].

Definition bad_deep_table : table := [("LocationMaker.walk", [Site OWN 1 "self.anchors[*].schema.x="])].
Definition bad_deep_history : list call :=
  [Call "LocationMaker.walk"
     [ AAlloc KDict [("A", VRef 2)];
       AWrite "LocationMaker.walk" (Site OWN 1 "self.anchors[*].schema.x=") 10 ["A"] "x-cache" (Some (VInt 1)) ]].

Definition bad_node_table : table := [("Schema.json", [Site SCHEMANODE 0 "self._size="])].
Definition bad_node_history : list call :=
  [Call "Schema.json" [AWrite "Schema.json" (Site SCHEMANODE 0 "self._size=") 6 [] "_size" (Some (VInt 3))]].
