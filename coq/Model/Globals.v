(* Model of the PROCESS-WIDE mutable state of stingray, as the code is now, and of the calls that read or
   write it.  What exists in src/stingray (found by reading every class body, module body and default argument):

     cobol_parser.DDE.filler_count        class attribute (int).  DDE.__init__ resets it on a level-01 entry
                                          and increments it for every entry named FILLER; structure() sets it to 0
                                          before it builds the first DDE [reset_at_start, Gen/GlobalsParams.v].
                                          DDE objects are built lazily, one per sentence, as structure() consumes
                                          them: when structure() raises, the remaining sentences build no DDE.
     schema_instance.SchemaMaker.ATOMIC   class-level set of type names.  walk_schema tests source[type] in
                                          self.ATOMIC.  JSONSchemaMakerExtendedVocabulary.__init__ either adds
                                          the name decimal to it through an instance (the tree before commit
                                          5271a92: the class-level set is shared) or installs a maker of a
                                          subclass that has its own set [ext_mutates_atomic, Gen/GlobalsParams.v].
     MODELLED as the two components of [globals].

     cobol_parser.JSONSchemaMaker.names   per maker object, reassigned to a new dict by every jsonschema() call
     SchemaMaker.name_cache / fixup_list  per maker object; from_json is a classmethod and builds a new maker
     LocationMaker.anchors                per maker object; Unpacker.nav() and NDNav.index() build a new maker
     Schema.print(hide=set())             default argument shared by all calls, never written
     workbook.file_registry.suffix_map    written by class decorators at import time only
     ExternalSchemaLoader.META_SCHEMA, CONVERSION, module loggers: never written after import
     Schema._attributes                   the caller's document, held by reference
     RefToSchema.ref_to                   written once, inside from_json (resolve)
     NOT MODELLED as state: in a functional model an object built inside a call IS a fresh value and a Gallina
     value cannot be written to, so modelling these would prove nothing.  That they really are per call / never
     written / not aliased is established only by the correspondence run of this check (harness/c11.py).
     The operations that touch only such state are the [OtherCall] and [ReadRecord] / [DropNavs] operations.

   Operations.  Each returns the new globals and an OUTPUT, which is what the caller can observe:
     ParseCopybook es    structure(sentences) with es = the sentences after clause_dict, then the schema maker:
                         output = the unique names of the DDE forest in document order, or the exception.
                         (schema_iter, COBOLSchemaLoader.load and a caller-held JSONSchemaMaker all come here.)
     MakeStandardMaker   JSONSchemaMaker()
     MakeExtendedMaker   JSONSchemaMakerExtendedVocabulary()
     LoadSchema ts       SchemaMaker.from_json(doc), doc well formed, ts = the type names of its leaves
                         (nodes that are neither object, array, oneOf nor $ref) in walk order:
                         ValueError at the first leaf whose type is not in ATOMIC
     LoadExtended ts     JSONSchemaMakerExtendedVocabulary().atomic_maker.from_json(doc)
     ReadRecord x r ps k unpacker.nav(schema of copybook x, record r), then (start, end, raw bytes) along each
                         navigation path of ps; k = the caller keeps the navigator (layout model of C01,
                         coq/Model/Layout.v; the LocationMaker built inside nav() is the [] handed to walk)
     DropNavs            the caller drops the navigators it kept
     OtherCall           Schema.print / NDNav.dump / Schema.json / iterating a CSV sheet with a heading-row
                         schema loader or through a hand-written schema (WBNav.name): no modelled state touched

   The two behaviours that commits 6cf36a5 and 5271a92 changed are MODE FLAGS of the model ([modes]); the modes
   of the tree under test are read from its source on every run (Gen/GlobalsParams.v). *)
From Coq Require Import NArith List Bool Arith.
Import ListNotations.
Require Import SR.Base.Res.
Require SR.Model.Structure SR.Spec.Layout SR.Model.Layout.
Require Import SR.Gen.SchemaMakerParams SR.Gen.GlobalsParams.

Definition str := Structure.str.
Definition entry := Structure.entry.

Record modes := { m_reset : bool; m_ext_mutates : bool }.
Definition gen_modes : modes := {| m_reset := reset_at_start; m_ext_mutates := ext_mutates_atomic |}.
Definition fixed_modes : modes := {| m_reset := true; m_ext_mutates := false |}.   (* after 6cf36a5 and 5271a92 *)
Definition old_modes : modes := {| m_reset := false; m_ext_mutates := true |}.     (* commit c44a253 *)

Record globals := {
  filler_count : N;             (* DDE.filler_count *)
  atomic_has_decimal : bool;    (* the name decimal is in SchemaMaker.ATOMIC *)
  live_navs : nat               (* navigators the caller keeps alive: read by nothing *)
}.
Definition init : globals := {| filler_count := 0; atomic_has_decimal := false; live_navs := 0 |}.

(* ------------------------------------------------------------------ parsing *)

(* DDE.filler_count after DDE objects were built for the sentences of l, in order *)
Fixpoint count_after (cnt : N) (l : list entry) : N :=
  match l with
  | [] => cnt
  | e :: r =>
      let c0 := if Structure.lvl_eqb (Structure.elv e) Structure.L01 then 0%N else cnt in
      count_after (if Structure.is_filler e then (c0 + 1)%N else c0) r
  end.

(* how many DDE objects the loop of structure() builds before it ends or raises *)
Fixpoint consumed (s : Structure.state) (l : list Structure.dde) : nat :=
  match l with
  | [] => 0
  | d :: r => match Structure.step s d with Ok s' => S (consumed s' r) | Err _ => 1 end
  end.

Definition built (c : N) (es : list entry) : nat :=
  match Structure.mk_ddes c es with
  | [] => 0
  | d :: r => S (consumed {| Structure.roots := []; Structure.cur := Structure.open d; Structure.rest := [] |} r)
  end.

(* the names the caller sees: unique_name of every node of the forest, document order *)
Definition names_of (c : N) (es : list entry) : res (list str) :=
  match Structure.structure_ddes (Structure.mk_ddes c es) with
  | Ok f => Ok (map Structure.du (Structure.preorder_f f))
  | Err e => Err e
  end.

(* the counter structure() starts from *)
Definition start_count (m : modes) (g : globals) : N := if m_reset m then 0%N else filler_count g.

(* ------------------------------------------------------------------ loading *)

Definition decimal_name : str := [100; 101; 99; 105; 109; 97; 108]%N.

Definition in_atomic (t : str) : bool := existsb (Structure.str_eqb t) atomic_names.

Definition load (has_decimal : bool) (ts : list str) : res unit :=
  if forallb (fun t => in_atomic t || (has_decimal && Structure.str_eqb t decimal_name)) ts
  then Ok tt else Err ValueError.

(* ------------------------------------------------------------------ reading *)

(* int(unpacker.value(counter, bytes)) for a DISPLAY digit string: low nibbles, base ten *)
Definition dcount (bs : list N) : nat := N.to_nat (fold_left (fun a b => (a * 10 + b mod 16)%N) bs 0%N).

Definition read_path (x : Spec.Layout.item) (r : list N) (p : list Spec.Layout.step) : res (nat * nat * list N) :=
  match Model.Layout.nav_of dcount r (Model.Layout.build x) with
  | Err e => Err e
  | Ok v0 =>
      match Model.Layout.nav_path dcount r v0 p with
      | Err e => Err e
      | Ok v => Ok (Model.Layout.lstart (Model.Layout.n_loc v), Model.Layout.lend (Model.Layout.n_loc v),
                    Model.Layout.nav_raw r v)
      end
  end.

(* ------------------------------------------------------------------ the state machine *)

Inductive op :=
| ParseCopybook (es : list entry)
| MakeStandardMaker
| MakeExtendedMaker
| LoadSchema (ts : list str)
| LoadExtended (ts : list str)
| ReadRecord (x : Spec.Layout.item) (r : list N) (ps : list (list Spec.Layout.step)) (keep : bool)
| DropNavs
| OtherCall.

Inductive output :=
| ONames (r : res (list str))
| OUnit
| OLoad (r : res unit)
| ORead (l : list (res (nat * nat * list N))).

Definition set_count (g : globals) (c : N) : globals :=
  {| filler_count := c; atomic_has_decimal := atomic_has_decimal g; live_navs := live_navs g |}.
Definition set_decimal (g : globals) (b : bool) : globals :=
  {| filler_count := filler_count g; atomic_has_decimal := b; live_navs := live_navs g |}.
Definition set_navs (g : globals) (n : nat) : globals :=
  {| filler_count := filler_count g; atomic_has_decimal := atomic_has_decimal g; live_navs := n |}.

Definition ext_made (m : modes) (g : globals) : globals :=
  if m_ext_mutates m then set_decimal g true else g.

Definition step_m (m : modes) (g : globals) (o : op) : globals * output :=
  match o with
  | ParseCopybook es =>
      let c0 := start_count m g in
      (set_count g (count_after c0 (firstn (built c0 es) es)), ONames (names_of c0 es))
  | MakeStandardMaker => (g, OUnit)
  | MakeExtendedMaker => (ext_made m g, OUnit)
  | LoadSchema ts => (g, OLoad (load (atomic_has_decimal g) ts))
  | LoadExtended ts => (ext_made m g, OLoad (load true ts))
  | ReadRecord x r ps keep =>
      ((if keep then set_navs g (S (live_navs g)) else g), ORead (map (read_path x r) ps))
  | DropNavs => (set_navs g 0, OUnit)
  | OtherCall => (g, OUnit)
  end.

Fixpoint run_m (m : modes) (g : globals) (h : list op) : globals :=
  match h with
  | [] => g
  | o :: r => run_m m (fst (step_m m g o)) r
  end.

(* the outputs of a sequence of calls made one after the other *)
Fixpoint outs_m (m : modes) (g : globals) (qs : list op) : list output :=
  match qs with
  | [] => []
  | o :: r => snd (step_m m g o) :: outs_m m (fst (step_m m g o)) r
  end.

(* the tree under test *)
Definition step := step_m gen_modes.
Definition run := run_m gen_modes.
Definition outs := outs_m gen_modes.
Definition out_of (g : globals) (q : op) : output := snd (step g q).
