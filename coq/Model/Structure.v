(* Model of Layer B of stingray.cobol_parser (src/stingray/cobol_parser.py), the code as it is now:

     DDE.__init__          naming: name = clauses.get(name) or clauses.get(filler) or FILLER;
                           class counter filler_count, reset by a level-01 entry, incremented by
                           every entry whose name is the string FILLER; unique_name = FILLER-n
     structure()           filler_count = 0; DDE objects are created lazily, in source order, for
                           EVERY sentence (also the 66/77/88 ones that are skipped afterwards);
                           first node = first tree, never filtered; later nodes: skip 66/77/88;
                           pop bottom up the parent chain while node.level <= bottom.level
                           (comparison of two-character STRINGS); no bottom left: new tree;
                           otherwise, when the node has a redefines clause, exactly one child of
                           bottom must carry that name (tuple unpacking: ValueError otherwise) and
                           that child gets clauses[redefines] = its own name; append; bottom = node
     JSONSchemaMaker.build_json_schema
                           only the SHAPE: kind, title, anchor, cobol text, ordered properties,
                           the REDEFINES-x oneOf inserted into names[parent.unique_name]
                           (the maker's names dict and the shared mutable dicts are modelled by a
                           heap of objects), KeyError when that dict has no properties key
                           (an OCCURS array, an elementary item), ValueError for an elementary
                           item without picture (calcsize).

   The constants of DDE.__init__ and structure() are read from the source on every run (T1,
   harness/t1_text.py -> Gen/StructureParams.v): the default name and the name that is numbered
   (default_name, filler_name), the increment and the format of the generated names (filler_step,
   gen_prefix, gen_suffix), the levels that reset the counter (reset_levels), the levels the loop skips
   (skipped_levels) and the comparison of the pop loop (pop_cmp).  The statement shapes around them are
   fixed (the extractor accepts no other).  structure() itself starts from the counter value zero
   (reset_at_start: Proofs/StructureP.v checks that the source still says so).

   Strings are lists of code points.  A level is the pair of code points of its two characters,
   compared the way Python compares two-character strings.
   The forest is built with a stack of open nodes (innermost first); a node is attached to its
   parent when it is closed, which yields the same child order as attaching it when it is created
   because an open node is always the last child of its parent. *)
From Coq Require Import NArith List Bool Arith.
Import ListNotations.
Require Import SR.Base.Res.
Require Import SR.Gen.StructureParams.

Definition str := list N.
Definition lvl := (N * N)%type.

Definition lvl_leb (a b : lvl) : bool :=
  (fst a <? fst b)%N || ((fst a =? fst b)%N && (snd a <=? snd b)%N).
Definition lvl_ltb (a b : lvl) : bool :=
  (fst a <? fst b)%N || ((fst a =? fst b)%N && (snd a <? snd b)%N).
Definition lvl_eqb (a b : lvl) : bool := (fst a =? fst b)%N && (snd a =? snd b)%N.

(* a OP b on two-character strings; OP numbered as in Gen/StructureParams.v pop_cmp *)
Definition lvl_cmp (op : N) (a b : lvl) : bool :=
  match op with
  | 0 => lvl_leb a b
  | 1 => lvl_ltb a b
  | 2 => lvl_leb b a
  | 3 => lvl_ltb b a
  | 4 => lvl_eqb a b
  | _ => negb (lvl_eqb a b)
  end%N.

Fixpoint str_eqb (a b : str) : bool :=
  match a, b with
  | [], [] => true
  | x :: a', y :: b' => (x =? y)%N && str_eqb a' b'
  | _, _ => false
  end.

Definition L01 : lvl := (48, 49)%N.
Definition L66 : lvl := (54, 54)%N.
Definition L77 : lvl := (55, 55)%N.
Definition L88 : lvl := (56, 56)%N.

(* the six letters FILLER, and FILLER followed by a hyphen (literals, for the files that quote them;
   what DDE.__init__ uses is default_name, filler_name, gen_prefix of Gen/StructureParams.v) *)
Definition FILLER : str := [70; 73; 76; 76; 69; 82]%N.
Definition FILLER_dash : str := [70; 73; 76; 76; 69; 82; 45]%N.
(* REDEFINES followed by a hyphen *)
Definition REDEFINES_dash : str := [82; 69; 68; 69; 70; 73; 78; 69; 83; 45]%N.

(* One sentence after clause_dict: what Layer B looks at. *)
Record entry := {
  elv : lvl;
  ename : option str;        (* clauses.get(name) *)
  efill : option str;        (* clauses.get(filler) *)
  eredef : option str;       (* clauses.get(redefines) *)
  epic : bool;               (* picture in clauses *)
  eocc : bool;               (* occurs_maxitems in clauses or odo_maxitems in clauses *)
  etext : str                (* compact_source *)
}.

Definition dde_name (e : entry) : str :=
  match ename e with
  | Some n => n
  | None => match efill e with Some f => f | None => default_name end
  end.

Definition is_filler (e : entry) : bool := str_eqb (dde_name e) filler_name.

(* str(n) for a natural number: digits least significant first, then reversed *)
Fixpoint dec_lsb (fuel : nat) (n : N) : list N :=
  match fuel with
  | O => []
  | S f => (48 + n mod 10)%N :: (if (n <? 10)%N then [] else dec_lsb f (n / 10)%N)
  end.
Definition dec (n : N) : str := rev (dec_lsb (S (N.to_nat n)) n).

Definition gen_name (n : N) : str := gen_prefix ++ dec n ++ gen_suffix.

(* self.level is one of the levels that restart the numbering *)
Definition is_reset (l : lvl) : bool := existsb (lvl_eqb l) reset_levels.

(* A DDE object: the entry and its unique_name. *)
Record dde := { de : entry; du : str }.

(* DDE.__init__ over the sentences in order; cnt = DDE.filler_count *)
Fixpoint mk_ddes (cnt : N) (l : list entry) : list dde :=
  match l with
  | [] => []
  | e :: r =>
      let c0 := if is_reset (elv e) then 0%N else cnt in
      if is_filler e
      then let c1 := (c0 + filler_step)%N in {| de := e; du := gen_name c1 |} :: mk_ddes c1 r
      else {| de := e; du := dde_name e |} :: mk_ddes c0 r
  end.

Definition dlv (d : dde) : lvl := elv (de d).

(* node.level in the set of skipped levels (66, 77, 88) *)
Definition skipped (d : dde) : bool := existsb (lvl_eqb (dlv d)) skipped_levels.
Definition keep (d : dde) : bool := negb (skipped d).

(* A DDE with its children; based = its clauses[redefines] was overwritten with its own name
   because a later sibling redefines it. *)
Inductive tree := TNode (d : dde) (based : bool) (kids : list tree).

Definition troot (t : tree) : dde := match t with TNode d _ _ => d end.
Definition tkids (t : tree) : list tree := match t with TNode _ _ k => k end.
Definition tbased (t : tree) : bool := match t with TNode _ b _ => b end.

(* clauses.get(redefines) of the finished node *)
Definition eff_redef (t : tree) : option str :=
  if tbased t then Some (dde_name (de (troot t))) else eredef (de (troot t)).

Record frame := { fd : dde; fkids : list tree }.

Definition close (f : frame) : tree := TNode (fd f) false (fkids f).
Definition attach (t : tree) (f : frame) : frame := {| fd := fd f; fkids := fkids f ++ [t] |}.
Definition open (d : dde) : frame := {| fd := d; fkids := [] |}.

(* node.level OP bottom.level, OP = pop_cmp (<= in the source as it is) *)
Definition pop_test (x y : lvl) : bool := lvl_cmp pop_cmp x y.

(* while bottom and node.level <= bottom.level: bottom = bottom.parent
   inl (b, rest): bottom = b;  inr t: bottom is None, t = the tree just left *)
Fixpoint pop (x : lvl) (cur : frame) (rest : list frame) : (frame * list frame) + tree :=
  if pop_test x (dlv (fd cur)) then
    match rest with
    | [] => inr (close cur)
    | p :: rest' => pop x (attach (close cur) p) rest'
    end
  else inl (cur, rest).

Definition name_is (tgt : str) (t : tree) : bool := str_eqb (dde_name (de (troot t))) tgt.

Definition set_based (t : tree) : tree := match t with TNode d _ k => TNode d true k end.

(* (matches,) = [c for c in bottom.children if c.name == target]; matches.clauses[redefines] = target *)
Definition mark_unique (tgt : str) (kids : list tree) : option (list tree) :=
  match filter (name_is tgt) kids with
  | [_] => Some (map (fun t => if name_is tgt t then set_based t else t) kids)
  | _ => None
  end.

Record state := { roots : list tree; cur : frame; rest : list frame }.

Definition step (s : state) (d : dde) : res state :=
  if skipped d then Ok s
  else match pop (dlv d) (cur s) (rest s) with
       | inr t => Ok {| roots := roots s ++ [t]; cur := open d; rest := [] |}
       | inl (b, rest') =>
           match eredef (de d) with
           | None => Ok {| roots := roots s; cur := open d; rest := b :: rest' |}
           | Some tgt =>
               match mark_unique tgt (fkids b) with
               | Some kids' => Ok {| roots := roots s; cur := open d;
                                     rest := {| fd := fd b; fkids := kids' |} :: rest' |}
               | None => Err ValueError
               end
           end
       end.

Fixpoint run (s : state) (l : list dde) : res state :=
  match l with
  | [] => Ok s
  | d :: r => match step s d with Ok s' => run s' r | Err e => Err e end
  end.

Fixpoint collapse (cur : frame) (rest : list frame) : tree :=
  match rest with
  | [] => close cur
  | p :: rest' => collapse (attach (close cur) p) rest'
  end.

Definition finish (s : state) : list tree := roots s ++ [collapse (cur s) (rest s)].

(* structure() on DDE objects *)
Definition structure_ddes (l : list dde) : res (list tree) :=
  match l with
  | [] => Err StopIter
  | d :: r =>
      match run {| roots := []; cur := open d; rest := [] |} r with
      | Ok s => Ok (finish s)
      | Err e => Err e
      end
  end.

(* structure(sentences): DDE.filler_count = 0 first (reset_at_start), then the DDE objects *)
Definition structure (l : list entry) : res (list tree) := structure_ddes (mk_ddes 0 l).

(* ------------------------------------------------------------------ reading a forest *)

Fixpoint preorder (t : tree) : list dde :=
  match t with TNode d _ kids => d :: flat_map preorder kids end.
Definition preorder_f (f : list tree) : list dde := flat_map preorder f.

(* For every node in preorder: the preorder index of its parent (None for a root).
   p = parent of the trees in the list, i = index of the first node of the list. *)
Fixpoint parents_t (p : option nat) (i : nat) (t : tree) : list (option nat) :=
  match t with
  | TNode _ _ kids =>
      p :: (fix go (ks : list tree) (j : nat) : list (option nat) :=
              match ks with
              | [] => []
              | k :: ks' => parents_t (Some i) j k ++ go ks' (j + length (preorder k))
              end) kids (S i)
  end.
Fixpoint parents_f (p : option nat) (i : nat) (f : list tree) : list (option nat) :=
  match f with
  | [] => []
  | t :: f' => parents_t p i t ++ parents_f p (i + length (preorder t)) f'
  end.
Definition parents (f : list tree) : list (option nat) := parents_f None 0 f.

(* ------------------------------------------------------------------ shape of the emitted schema *)

(* kind: 0 object, 1 array, 2 atomic, 3 oneOf, 4 ref placeholder;
   anchor: the anchor, or for kind 4 the ref string;  props: the ordered properties
   (items.properties for an array; the alternatives, keyed by the empty string, for a oneOf) *)
Inductive snode := SN (kind : N) (title anchor cobol : option str) (props : list (str * snode)).

(* The schema maker works on mutable dicts that are shared by reference: the REDEFINES branch
   mutates names[parent.unique_name], whichever dict that is at the time.  The model therefore
   keeps a heap of schema objects (object id = position) whose properties refer to ids, and the
   maker's names dict (unique_name to id, last assignment wins: new bindings are put in front).
   Only an object of kind 0 has a properties key; only kind 3 has a oneOf key. *)
Record sobj := { okind : N; otitle : option str; oanchor : option str; ocobol : option str;
                 oprops : list (str * nat) }.
Record mst := { heap : list sobj; names : list (str * nat) }.

Definition dummy_obj : sobj := {| okind := 9; otitle := None; oanchor := None; ocobol := None; oprops := [] |}.
Definition hget (id : nat) (s : mst) : sobj := nth id (heap s) dummy_obj.

Fixpoint list_upd {A} (i : nat) (f : A -> A) (l : list A) : list A :=
  match l with
  | [] => []
  | x :: r => match i with O => f x :: r | S j => x :: list_upd j f r end
  end.

Definition hupd (id : nat) (f : sobj -> sobj) (s : mst) : mst :=
  {| heap := list_upd id f (heap s); names := names s |}.
Definition alloc (o : sobj) (s : mst) : nat * mst :=
  (length (heap s), {| heap := heap s ++ [o]; names := names s |}).
(* self.names[key] = object *)
Definition reg (key : str) (id : nat) (s : mst) : mst :=
  {| heap := heap s; names := (key, id) :: names s |}.

Fixpoint lookup (key : str) (d : list (str * nat)) : option nat :=
  match d with
  | [] => None
  | (k, v) :: r => if str_eqb k key then Some v else lookup key r
  end.

(* d[key] = v on an insertion-ordered dict *)
Fixpoint dict_set (key : str) (v : nat) (d : list (str * nat)) : list (str * nat) :=
  match d with
  | [] => [(key, v)]
  | (k, old) :: r => if str_eqb k key then (k, v) :: r else (k, old) :: dict_set key v r
  end.

Definition set_props (f : list (str * nat) -> list (str * nat)) (o : sobj) : sobj :=
  {| okind := okind o; otitle := otitle o; oanchor := oanchor o; ocobol := ocobol o; oprops := f (oprops o) |}.
Definition set_anchor (a : option str) (o : sobj) : sobj :=
  {| okind := okind o; otitle := otitle o; oanchor := a; ocobol := ocobol o; oprops := oprops o |}.

Definition cobol_of (d : dde) : str := [fst (dlv d); snd (dlv d); 32%N] ++ etext (de d).

(* REDEFINES branch, before the alternative is built:
     parent_schema = self.names[parent.unique_name]
     if base_def_name not in parent_schema[properties]: parent_schema[properties][base_def_name] = new oneOf
   answer: the id of parent_schema *)
Definition redef_pre (parent_uname tgt : str) (s : mst) : res (nat * mst) :=
  match lookup parent_uname (names s) with
  | None => Err KeyError
  | Some pid =>
      let po := hget pid s in
      if (okind po =? 0)%N then
        let key := REDEFINES_dash ++ tgt in
        match lookup key (oprops po) with
        | Some _ => Ok (pid, s)
        | None =>
            let (oid, s1) := alloc {| okind := 3; otitle := None; oanchor := Some key; ocobol := None; oprops := [] |} s in
            Ok (pid, hupd pid (set_props (dict_set key oid)) s1)
        end
      else Err KeyError
  end.

(* REDEFINES branch, after the alternative rid is built:
     parent_schema[properties][base_def_name][oneOf].append(redef); return the ref placeholder *)
Definition redef_post (pid : nat) (tgt : str) (rid : nat) (d : dde) (s : mst) : res (nat * mst) :=
  let key := REDEFINES_dash ++ tgt in
  match lookup key (oprops (hget pid s)) with
  | None => Err KeyError
  | Some oid =>
      if (okind (hget oid s) =? 3)%N then
        let s1 := hupd oid (set_props (fun ps => ps ++ [([], rid)])) s in
        Ok (alloc {| okind := 4; otitle := Some (dde_name (de d)); oanchor := Some (35%N :: du d);
                     ocobol := Some (cobol_of d); oprops := [] |} s1)
      else Err KeyError
  end.

(* build_json_schema(node, ignore_redefines=True), also the call on a root (no parent);
   answer: the id of the returned dict *)
Fixpoint build (t : tree) (s : mst) : res (nat * mst) :=
  match t with
  | TNode d _ kids =>
      let title := Some (dde_name (de d)) in
      let cobol := Some (cobol_of d) in
      (* build_json_schema(k) for a child k of this node *)
      let child := fun (bk : mst -> res (nat * mst)) (k : tree) (s : mst) =>
        match eff_redef k with
        | Some tgt =>
            match redef_pre (du d) tgt s with
            | Err e => Err e
            | Ok (pid, s1) =>
                match bk s1 with
                | Err e => Err e
                | Ok (rid, s2) => redef_post pid tgt rid (troot k) s2
                end
            end
        | None => bk s
        end in
      if eocc (de d) then
        let (id, s1) := alloc {| okind := 1; otitle := title; oanchor := None; ocobol := cobol; oprops := [] |} s in
        let s2 := reg (du d) id s1 in
        if epic (de d) then
          let (iid, s3) := alloc {| okind := 2; otitle := None; oanchor := Some (du d); ocobol := cobol; oprops := [] |} s2 in
          Ok (id, reg (du d) id (hupd id (set_props (fun _ => [(du d, iid)])) s3))
        else
          let s3 := hupd id (set_anchor (Some (du d))) s2 in
          (* dict comprehension over the children, assigned to items afterwards *)
          match (fix occ (ks : list tree) (acc : list (str * nat)) (s : mst) : res (list (str * nat) * mst) :=
                   match ks with
                   | [] => Ok (acc, s)
                   | k :: ks' =>
                       match child (build k) k s with
                       | Ok (cid, s') => occ ks' (dict_set (du (troot k)) cid acc) s'
                       | Err e => Err e
                       end
                   end) kids [] s3 with
          | Ok (props, s4) => Ok (id, reg (du d) id (hupd id (set_props (fun _ => props)) s4))
          | Err e => Err e
          end
      else
        match kids with
        | _ :: _ =>
            let (id, s1) := alloc {| okind := 0; otitle := title; oanchor := Some (du d); ocobol := cobol; oprops := [] |} s in
            let s2 := reg (du d) id s1 in
            match (fix grp (ks : list tree) (s : mst) : res mst :=
                     match ks with
                     | [] => Ok s
                     | k :: ks' =>
                         match child (build k) k s with
                         | Ok (cid, s') => grp ks' (hupd id (set_props (dict_set (du (troot k)) cid)) s')
                         | Err e => Err e
                         end
                     end) kids s2 with
            | Ok s3 => Ok (id, reg (du d) id s3)
            | Err e => Err e
            end
        | [] =>
            if epic (de d) then
              let (id, s1) := alloc {| okind := 2; otitle := title; oanchor := Some (du d); ocobol := cobol; oprops := [] |} s in
              Ok (id, reg (du d) id s1)
            else Err ValueError
        end
  end.

(* the dict behind an id, as a tree; fuel = number of objects (there are no cycles: every dict is
   stored exactly once, by the caller of the call that created it); kind 8 = out of fuel *)
Fixpoint reify (fuel : nat) (s : mst) (id : nat) : snode :=
  match fuel with
  | O => SN 8 None None None []
  | S f => let o := hget id s in
           SN (okind o) (otitle o) (oanchor o) (ocobol o) (map (fun p => (fst p, reify f s (snd p))) (oprops o))
  end.

(* maker.jsonschema(record): names = {} *)
Definition build_tree (t : tree) : res snode :=
  match build t {| heap := []; names := [] |} with
  | Ok (id, s) => Ok (reify (S (length (heap s))) s id)
  | Err e => Err e
  end.

(* list(schema_iter(text)) after structure(): one schema per tree, first error wins *)
Fixpoint build_all (f : list tree) : res (list snode) :=
  match f with
  | [] => Ok []
  | t :: f' =>
      match build_tree t with
      | Ok s => match build_all f' with Ok r => Ok (s :: r) | Err e => Err e end
      | Err e => Err e
      end
  end.

Definition schemas (l : list entry) : res (list snode) :=
  match structure l with Ok f => build_all f | Err e => Err e end.

(* preorder index of the root of each tree *)
Fixpoint root_pos (i : nat) (f : list tree) : list nat :=
  match f with
  | [] => []
  | t :: f' => i :: root_pos (i + length (preorder t)) f'
  end.
