(* Model of Layer B of stingray.cobol_parser (src/stingray/cobol_parser.py), the code as it is now:

     DDE.__init__          naming: name = clauses.get(name) or clauses.get(filler) or FILLER;
                           class counter filler_count, reset by a level-01 entry, incremented by
                           every entry whose name is the string FILLER; unique_name = FILLER-n
     structure()           filler_count = 0; DDE objects are created lazily, in source order, for
                           EVERY sentence (also the 66/77/88 ones that are skipped afterwards);
                           first node = first tree, never filtered; later nodes: skip 66/77/88;
                           pop bottom up the parent chain while node.level <= bottom.level
                           (comparison of two-character STRINGS); no bottom left: new tree;
                           otherwise, when the node has a redefines clause, exactly one child of
                           bottom must carry that name (tuple unpacking: ValueError otherwise) and
                           that child gets clauses[redefines] = its own name; append; bottom = node
     JSONSchemaMaker.build_json_schema
                           only the SHAPE: kind, title, anchor, cobol text, ordered properties,
                           the REDEFINES-x oneOf inserted into the parent's properties,
                           KeyError when the parent is an OCCURS array, ValueError for an
                           elementary item without picture (calcsize).

   Strings are lists of code points.  A level is the pair of code points of its two characters,
   compared the way Python compares two-character strings.
   The forest is built with a stack of open nodes (innermost first); a node is attached to its
   parent when it is closed, which yields the same child order as attaching it when it is created
   because an open node is always the last child of its parent. *)
From Coq Require Import NArith List Bool Arith.
Import ListNotations.
Require Import SR.Base.Res.

Definition str := list N.
Definition lvl := (N * N)%type.

Definition lvl_leb (a b : lvl) : bool :=
  (fst a <? fst b)%N || ((fst a =? fst b)%N && (snd a <=? snd b)%N).
Definition lvl_eqb (a b : lvl) : bool := (fst a =? fst b)%N && (snd a =? snd b)%N.

Fixpoint str_eqb (a b : str) : bool :=
  match a, b with
  | [], [] => true
  | x :: a', y :: b' => (x =? y)%N && str_eqb a' b'
  | _, _ => false
  end.

Definition L01 : lvl := (48, 49)%N.
Definition L66 : lvl := (54, 54)%N.
Definition L77 : lvl := (55, 55)%N.
Definition L88 : lvl := (56, 56)%N.

(* the six letters FILLER, and FILLER followed by a hyphen *)
Definition FILLER : str := [70; 73; 76; 76; 69; 82]%N.
Definition FILLER_dash : str := [70; 73; 76; 76; 69; 82; 45]%N.
(* REDEFINES followed by a hyphen *)
Definition REDEFINES_dash : str := [82; 69; 68; 69; 70; 73; 78; 69; 83; 45]%N.

(* One sentence after clause_dict: what Layer B looks at. *)
Record entry := {
  elv : lvl;
  ename : option str;        (* clauses.get(name) *)
  efill : option str;        (* clauses.get(filler) *)
  eredef : option str;       (* clauses.get(redefines) *)
  epic : bool;               (* picture in clauses *)
  eocc : bool;               (* occurs_maxitems in clauses or odo_maxitems in clauses *)
  etext : str                (* compact_source *)
}.

Definition dde_name (e : entry) : str :=
  match ename e with
  | Some n => n
  | None => match efill e with Some f => f | None => FILLER end
  end.

Definition is_filler (e : entry) : bool := str_eqb (dde_name e) FILLER.

(* str(n) for a natural number: digits least significant first, then reversed *)
Fixpoint dec_lsb (fuel : nat) (n : N) : list N :=
  match fuel with
  | O => []
  | S f => (48 + n mod 10)%N :: (if (n <? 10)%N then [] else dec_lsb f (n / 10)%N)
  end.
Definition dec (n : N) : str := rev (dec_lsb (S (N.to_nat n)) n).

Definition gen_name (n : N) : str := FILLER_dash ++ dec n.

(* A DDE object: the entry and its unique_name. *)
Record dde := { de : entry; du : str }.

(* DDE.__init__ over the sentences in order; cnt = DDE.filler_count *)
Fixpoint mk_ddes (cnt : N) (l : list entry) : list dde :=
  match l with
  | [] => []
  | e :: r =>
      let c0 := if lvl_eqb (elv e) L01 then 0%N else cnt in
      if is_filler e
      then let c1 := (c0 + 1)%N in {| de := e; du := gen_name c1 |} :: mk_ddes c1 r
      else {| de := e; du := dde_name e |} :: mk_ddes c0 r
  end.

Definition dlv (d : dde) : lvl := elv (de d).

(* node.level in the set of 66, 77, 88 *)
Definition skipped (d : dde) : bool :=
  lvl_eqb (dlv d) L66 || lvl_eqb (dlv d) L77 || lvl_eqb (dlv d) L88.
Definition keep (d : dde) : bool := negb (skipped d).

(* A DDE with its children; based = its clauses[redefines] was overwritten with its own name
   because a later sibling redefines it. *)
Inductive tree := TNode (d : dde) (based : bool) (kids : list tree).

Definition troot (t : tree) : dde := match t with TNode d _ _ => d end.
Definition tkids (t : tree) : list tree := match t with TNode _ _ k => k end.
Definition tbased (t : tree) : bool := match t with TNode _ b _ => b end.

(* clauses.get(redefines) of the finished node *)
Definition eff_redef (t : tree) : option str :=
  if tbased t then Some (dde_name (de (troot t))) else eredef (de (troot t)).

Record frame := { fd : dde; fkids : list tree }.

Definition close (f : frame) : tree := TNode (fd f) false (fkids f).
Definition attach (t : tree) (f : frame) : frame := {| fd := fd f; fkids := fkids f ++ [t] |}.
Definition open (d : dde) : frame := {| fd := d; fkids := [] |}.

(* while bottom and node.level <= bottom.level: bottom = bottom.parent
   inl (b, rest): bottom = b;  inr t: bottom is None, t = the tree just left *)
Fixpoint pop (x : lvl) (cur : frame) (rest : list frame) : (frame * list frame) + tree :=
  if lvl_leb x (dlv (fd cur)) then
    match rest with
    | [] => inr (close cur)
    | p :: rest' => pop x (attach (close cur) p) rest'
    end
  else inl (cur, rest).

Definition name_is (tgt : str) (t : tree) : bool := str_eqb (dde_name (de (troot t))) tgt.

Definition set_based (t : tree) : tree := match t with TNode d _ k => TNode d true k end.

(* (matches,) = [c for c in bottom.children if c.name == target]; matches.clauses[redefines] = target *)
Definition mark_unique (tgt : str) (kids : list tree) : option (list tree) :=
  match filter (name_is tgt) kids with
  | [_] => Some (map (fun t => if name_is tgt t then set_based t else t) kids)
  | _ => None
  end.

Record state := { roots : list tree; cur : frame; rest : list frame }.

Definition step (s : state) (d : dde) : res state :=
  if skipped d then Ok s
  else match pop (dlv d) (cur s) (rest s) with
       | inr t => Ok {| roots := roots s ++ [t]; cur := open d; rest := [] |}
       | inl (b, rest') =>
           match eredef (de d) with
           | None => Ok {| roots := roots s; cur := open d; rest := b :: rest' |}
           | Some tgt =>
               match mark_unique tgt (fkids b) with
               | Some kids' => Ok {| roots := roots s; cur := open d;
                                     rest := {| fd := fd b; fkids := kids' |} :: rest' |}
               | None => Err ValueError
               end
           end
       end.

Fixpoint run (s : state) (l : list dde) : res state :=
  match l with
  | [] => Ok s
  | d :: r => match step s d with Ok s' => run s' r | Err e => Err e end
  end.

Fixpoint collapse (cur : frame) (rest : list frame) : tree :=
  match rest with
  | [] => close cur
  | p :: rest' => collapse (attach (close cur) p) rest'
  end.

Definition finish (s : state) : list tree := roots s ++ [collapse (cur s) (rest s)].

(* structure() on DDE objects *)
Definition structure_ddes (l : list dde) : res (list tree) :=
  match l with
  | [] => Err StopIter
  | d :: r =>
      match run {| roots := []; cur := open d; rest := [] |} r with
      | Ok s => Ok (finish s)
      | Err e => Err e
      end
  end.

(* structure(sentences) *)
Definition structure (l : list entry) : res (list tree) := structure_ddes (mk_ddes 0 l).

(* ------------------------------------------------------------------ reading a forest *)

Fixpoint preorder (t : tree) : list dde :=
  match t with TNode d _ kids => d :: flat_map preorder kids end.
Definition preorder_f (f : list tree) : list dde := flat_map preorder f.

(* For every node in preorder: the preorder index of its parent (None for a root).
   p = parent of the trees in the list, i = index of the first node of the list. *)
Fixpoint parents_t (p : option nat) (i : nat) (t : tree) : list (option nat) :=
  match t with
  | TNode _ _ kids =>
      p :: (fix go (ks : list tree) (j : nat) : list (option nat) :=
              match ks with
              | [] => []
              | k :: ks' => parents_t (Some i) j k ++ go ks' (j + length (preorder k))
              end) kids (S i)
  end.
Fixpoint parents_f (p : option nat) (i : nat) (f : list tree) : list (option nat) :=
  match f with
  | [] => []
  | t :: f' => parents_t p i t ++ parents_f p (i + length (preorder t)) f'
  end.
Definition parents (f : list tree) : list (option nat) := parents_f None 0 f.

(* ------------------------------------------------------------------ shape of the emitted schema *)

(* kind: 0 object, 1 array, 2 atomic, 3 oneOf, 4 ref placeholder;
   anchor: the anchor, or for kind 4 the ref string;  props: the ordered properties
   (items.properties for an array; the alternatives, keyed by the empty string, for a oneOf) *)
Inductive snode := SN (kind : N) (title anchor cobol : option str) (props : list (str * snode)).

Definition s_oneof_add (alt : snode) (s : snode) : snode :=
  match s with SN k t a c props => SN k t a c (props ++ [([], alt)]) end.

Fixpoint has_key (key : str) (props : list (str * snode)) : bool :=
  match props with
  | [] => false
  | (k, _) :: r => str_eqb k key || has_key key r
  end.

(* d[key] = v on an insertion-ordered dict *)
Fixpoint dict_set (key : str) (v : snode) (props : list (str * snode)) : list (str * snode) :=
  match props with
  | [] => [(key, v)]
  | (k, old) :: r => if str_eqb k key then (k, v) :: r else (k, old) :: dict_set key v r
  end.

Fixpoint dict_upd (key : str) (f : snode -> snode) (props : list (str * snode)) : list (str * snode) :=
  match props with
  | [] => []
  | (k, old) :: r => if str_eqb k key then (k, f old) :: r else (k, old) :: dict_upd key f r
  end.

Definition cobol_of (d : dde) : str := [fst (dlv d); snd (dlv d); 32%N] ++ etext (de d).

Definition ref_node (d : dde) : snode :=
  SN 4 (Some (dde_name (de d))) (Some (35%N :: du d)) (Some (cobol_of d)) [].

(* build_json_schema(node, ignore_redefines=True), also the call on a root (no parent) *)
Fixpoint build (t : tree) : res snode :=
  match t with
  | TNode d _ kids =>
      let title := Some (dde_name (de d)) in
      let cobol := Some (cobol_of d) in
      if eocc (de d) then
        if epic (de d) then
          Ok (SN 1 title None cobol [(du d, SN 2 None (Some (du d)) cobol [])])
        else
          (* dict comprehension over the children; a child with a redefines clause looks up
             properties in this array schema: KeyError *)
          match (fix occ (ks : list tree) (props : list (str * snode)) : res (list (str * snode)) :=
                   match ks with
                   | [] => Ok props
                   | k :: ks' =>
                       match eff_redef k with
                       | Some _ => Err KeyError
                       | None => match build k with
                                 | Ok s => occ ks' (dict_set (du (troot k)) s props)
                                 | Err e => Err e
                                 end
                       end
                   end) kids [] with
          | Ok props => Ok (SN 1 title (Some (du d)) cobol props)
          | Err e => Err e
          end
      else
        match kids with
        | _ :: _ =>
            match (fix grp (ks : list tree) (props : list (str * snode)) : res (list (str * snode)) :=
                     match ks with
                     | [] => Ok props
                     | k :: ks' =>
                         match eff_redef k with
                         | Some tgt =>
                             let key := REDEFINES_dash ++ tgt in
                             let props1 := if has_key key props then props
                                           else dict_set key (SN 3 None (Some key) None []) props in
                             match build k with
                             | Ok alt =>
                                 grp ks' (dict_set (du (troot k)) (ref_node (troot k))
                                            (dict_upd key (s_oneof_add alt) props1))
                             | Err e => Err e
                             end
                         | None =>
                             match build k with
                             | Ok s => grp ks' (dict_set (du (troot k)) s props)
                             | Err e => Err e
                             end
                         end
                     end) kids [] with
            | Ok props => Ok (SN 0 title (Some (du d)) cobol props)
            | Err e => Err e
            end
        | [] => if epic (de d) then Ok (SN 2 title (Some (du d)) cobol []) else Err ValueError
        end
  end.

(* list(schema_iter(text)) after structure(): one schema per tree, first error wins *)
Fixpoint build_all (f : list tree) : res (list snode) :=
  match f with
  | [] => Ok []
  | t :: f' =>
      match build t with
      | Ok s => match build_all f' with Ok r => Ok (s :: r) | Err e => Err e end
      | Err e => Err e
      end
  end.

Definition schemas (l : list entry) : res (list snode) :=
  match structure l with Ok f => build_all f | Err e => Err e end.

(* preorder index of the root of each tree *)
Fixpoint root_pos (i : nat) (f : list tree) : list nat :=
  match f with
  | [] => []
  | t :: f' => i :: root_pos (i + length (preorder t)) f'
  end.
