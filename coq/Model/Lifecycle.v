(* Model of the workbook life cycle (src/stingray/workbook.py Workbook.__enter__/__exit__/close, the
   eight workbook classes and the open/close methods of their unpackers in workbook.py,
   implementations.py and schema_instance.py), as far as operating-system handles on the
   workbook's own file are concerned.

   PARTIAL BY CONSTRUCTION.  What the operating system, the io module and the third-party readers
   do enters through the table [class_kind]; it is not proved, it is compared with the running
   code on an exhaustive grid of traces by the correspondence check (harness/c14.py).

     <Workbook subclass>.__init__(name [, file_object])
         self.unpacker = <Unpacker>() ; self.unpacker.open(self.name, file_object)
     CSV/JSON/Text/EBCDIC unpacker.open
         if file_object: self.the_file = file_object  else: self.the_file = name.open(mode)
     XLS/XLSX/ODS/Numbers unpacker.open    (their workbook classes take no file_object)
         self.the_file = xlrd.open_workbook(name) | load_workbook(filename=name)
                       | pyexcel.get_book(file_name=...) | numbers_parser.Document(name)
     <Unpacker>.close
         if hasattr(self, "the_file") and self.the_file:
             [self.the_file.close()]          (CSV JSON XLSX Text EBCDIC; not XLS ODS Numbers)
             del self.the_file
     Workbook.__enter__ : return self
     Workbook.__exit__  : self.close()   (returns None, so an exception of the body propagates)
     <Workbook subclass>.close : self.unpacker.close()

   The guard / close call / del of each close() are read from the source (Gen/RegistryParams.v,
   [close_shape]).  The truth test of the guard is taken as true whenever the attribute exists:
   io file objects, xlrd.Book, openpyxl.Workbook and numbers_parser.Document define neither
   __bool__ nor __len__ (pyexcel.Book has __len__ = number of sheets; a book without sheets would
   skip the del, which changes nothing about handles).

   State: the unpacker attribute [the_file], the set [os] of this process's open descriptors on the
   workbook's path, a fresh-descriptor counter, and [garbage]: descriptors owned by object graphs
   that are unreachable but cyclic, so that only the cycle collector releases them.

   Body events.  Iterating sheets and rows ([Read]) does not touch [the_file] or any descriptor
   (sheet_iter, Sheet.row_iter, the instance_iter generators and the loaders only read through
   self.the_file); whether such a step raises is an input of the model ([Read (Some x)]), so the
   theorems cover a raise at any point and with any exception.  [Raise] is the body raising on its
   own, [Close] an explicit wb.close() inside the body. *)
From Coq Require Import NArith List Bool Arith.
Import ListNotations.
Require Import SR.Base.Res SR.Gen.RegistryParams.

Inductive cls := CSV | NDJSON | XLS | XLSX | ODS | Numbers | CobolText | CobolEbcdic.

Definition cls_id (c : cls) : N :=
  match c with
  | CSV => 1 | NDJSON => 2 | XLS => 3 | XLSX => 4 | ODS => 5 | Numbers => 6 | CobolText => 7 | CobolEbcdic => 8
  end%N.

Definition all_classes : list cls := [CSV; NDJSON; XLS; XLSX; ODS; Numbers; CobolText; CobolEbcdic].

Definition cls_of_id (n : N) : option cls := find (fun c => N.eqb (cls_id c) n) all_classes.

(* ---- the per-class facts about the world (checked by correspondence, not proved) ---- *)
Inductive kind :=
| HoldsUntilClose   (* open() = Path.open: one descriptor, kept in the_file until the_file.close() *)
| ReadsAtOpen       (* the reader opens, parses and closes inside open(); the document holds no descriptor *)
| HoldsUntilGC.     (* the document object graph keeps a descriptor, has no close(), and is cyclic *)

Definition class_kind (c : cls) : kind :=
  match c with
  | CSV | NDJSON | CobolText | CobolEbcdic => HoldsUntilClose
  | XLS | XLSX | ODS => ReadsAtOpen
  | Numbers => HoldsUntilGC
  end.

(* the constructor has a file_object parameter *)
Definition accepts_file_object (c : cls) : bool :=
  match c with
  | CSV | NDJSON | CobolText | CobolEbcdic => true
  | _ => false
  end.

(* (guarded, closes, deletes) of the unpacker's close(), from the source *)
Definition shape (c : cls) : bool * bool * bool :=
  match find (fun p => N.eqb (fst p) (cls_id c)) close_shape with
  | Some p => snd p
  | None => (false, false, false)
  end.

(* ---- state ---- *)
Inductive held :=
| PyFile (h : nat)          (* an io file object with descriptor h *)
| Doc (h : option nat).     (* a parsed document; Some h: its object graph owns the open descriptor h *)

Record st := mkst {
  the_file : option held;   (* None: the unpacker has no attribute the_file *)
  os : list nat;
  next : nat;
  garbage : list nat
}.

Inductive mode := ByPath | CallerFile.

Definition caller_fd : nat := 0.

(* before the constructor runs; in CallerFile mode the caller has opened the path (descriptor 0) *)
Definition init (m : mode) : st :=
  match m with
  | ByPath => mkst None [] 1 []
  | CallerFile => mkst None [caller_fd] 1 []
  end.

Definition construct (c : cls) (m : mode) (s : st) : res st :=
  match m with
  | CallerFile =>
      if accepts_file_object c
      then Ok (mkst (Some (PyFile caller_fd)) (os s) (next s) (garbage s))
      else Err TypeError                     (* __init__ takes no such argument; nothing was opened *)
  | ByPath =>
      let h := next s in
      match class_kind c with
      | HoldsUntilClose => Ok (mkst (Some (PyFile h)) (h :: os s) (S h) (garbage s))
      | ReadsAtOpen => Ok (mkst (Some (Doc None)) (os s) (S h) (garbage s))
      | HoldsUntilGC => Ok (mkst (Some (Doc (Some h))) (h :: os s) (S h) (garbage s))
      end
  end.

(* file.close(): the descriptor goes away; closing twice is allowed *)
Definition os_close (h : nat) (l : list nat) : list nat := filter (fun x => negb (Nat.eqb x h)) l.

Definition unpacker_close (c : cls) (s : st) : res st :=
  let '(guarded, closes, deletes) := shape c in
  match the_file s with
  | None => if guarded then Ok s else Err AttributeError
  | Some f =>
      let os1 := match f with
                 | PyFile h => if closes then os_close h (os s) else os s
                 | Doc _ => os s            (* openpyxl Workbook.close() only acts in read-only/write-only mode *)
                 end in
      if deletes then
        (* the last reference of the library is dropped; a descriptor that is still open now
           belongs to an object nobody can reach *)
        let g := match f with
                 | PyFile h => if existsb (Nat.eqb h) os1 then h :: garbage s else garbage s
                 | Doc (Some h) => h :: garbage s
                 | Doc None => garbage s
                 end in
        Ok (mkst None os1 (next s) g)
      else Ok (mkst (Some f) os1 (next s) (garbage s))
  end.

(* gc.collect() *)
Definition gc (s : st) : st :=
  mkst (the_file s) (filter (fun x => negb (existsb (Nat.eqb x) (garbage s))) (os s)) (next s) [].

(* ---- the with statement ---- *)
Inductive ev :=
| Read (o : option exn)
| Raise
| Close.

Definition boom : exn := OtherError.

Definition step (c : cls) (e : ev) (s : st) : res st :=
  match e with
  | Read None => Ok s
  | Read (Some x) => Err x
  | Raise => Err boom
  | Close => unpacker_close c s
  end.

(* state when the body ends, the exception that ended it, descriptor count after each completed event *)
Fixpoint run_body (c : cls) (b : list ev) (s : st) : st * option exn * list nat :=
  match b with
  | [] => (s, None, [])
  | e :: b' =>
      match step c e s with
      | Err x => (s, Some x, [])
      | Ok s' => let '(s2, x, log) := run_body c b' s' in (s2, x, length (os s') :: log)
      end
  end.

Record outcome := mkout {
  o_construct : option exn;   (* raised by the constructor: the block is never entered *)
  o_log : list nat;           (* descriptor count after the constructor and after each completed event *)
  o_escaped : option exn;     (* what comes out of the with statement *)
  o_exit : st                 (* state right after the with statement *)
}.

Definition with_block (c : cls) (m : mode) (body : list ev) : outcome :=
  let s0 := init m in
  match construct c m s0 with
  | Err x => mkout (Some x) [] (Some x) s0
  | Ok s1 =>
      let '(s2, x, log) := run_body c body s1 in
      match unpacker_close c s2 with
      | Ok s3 => mkout None (length (os s1) :: log) x s3
      | Err y => mkout None (length (os s1) :: log) (Some y) s2
      end
  end.

Definition caller_closed (s : st) : bool := negb (existsb (Nat.eqb caller_fd) (os s)).

(* trigger of finding 1 (K-numbers-fd): a class whose document keeps its descriptor until a
   garbage collection, opened by path *)
Definition known_bad (c : cls) (m : mode) : bool :=
  match m, class_kind c with
  | ByPath, HoldsUntilGC => true
  | _, _ => false
  end.
