(* Model of the workbook facade across file formats, as the code is now (C03).

   src/stingray/workbook.py
     WBFileRegistry.open_workbook   class by path suffix (Model/Registry.v, registrations read from the source)
     Workbook.sheet_iter            one Sheet(self, name) per name the unpacker's sheet_iter yields;
                                    a Sheet keeps only the NAME: rows are fetched again by name
     Sheet.row_iter                 unpacker.instance_iter(sheet.name); loader.header; Row per instance
                                    (Model/HeaderRow.v [row_iter] for the list-of-cells instances)
     set_schema                     binds the schema AND installs the do-nothing loader
                                    (Gen/HeaderRowParams.v set_schema_resets_loader; the rules of row_iter, the
                                    loaders and WBNav are read from the source: see Model/HeaderRow.v)
     Row.__init__                   unpacker.nav(sheet.schema, instance): AttributeError without a schema
     CSVUnpacker / JSONUnpacker     sheet_iter yields the empty name only; instance_iter ignores the name
     COBOL_Text_File                TextUnpacker: sheet_iter yields the empty name; instances = the lines of
                                    the text file, line ends included
     COBOL_EBCDIC_File / _Sheet     sheet_iter yields the empty name; set_schema fixes lrecl (the workbook's
                                    if truthy, else the end of the layout); row_iter = records of the RECFM
                                    reader, Row per record, then used(location.end)
   src/stingray/implementations.py
     XLS/XLSX/ODS unpackers         sheet_iter = the library's sheet names; instance_iter(name) = the rows of
                                    the sheet with that name
     NumbersUnpacker                sheet_iter = sheet::table for every table of every sheet;
                                    instance_iter(name): name.partition(::), sheets[sheet].tables[table]
   src/stingray/schema_instance.py
     WBNav.name / value             Model/HeaderRow.v [nav_name]
     DNav.name / value              schema.properties[name] (KeyError), instance[name] (KeyError); the value itself
     LocationMaker.walk             object of atomic fields: field i starts where field i-1 ends, size =
                                    unpacker.calcsize (TextUnpacker: maxLength; EBCDIC: estruct.calcsize of X(w) = w)
     NDNav.name / value             location.properties[name] (KeyError); unpacker.value(schema, instance[start:end])
     TextUnpacker.value             CONVERSION[type string] = str: the slice itself
     EBCDIC.value                   CONVERSION[None] = identity on estruct.unpack(cobol clause, slice):
                                    Model/Estruct.v [unpack_x] (cp037 text, ValueError when the slice is short)

   What a third-party parser delivers for a file is a value of type [content] (the parsers themselves are
   outside the model: Section variables in Proofs/WorkbookP.v).  The two formats the library decodes itself
   are modelled down to the file image: a text file is its decoded characters, an EBCDIC file its bytes.

   The layout of a fixed-width record is the FLAT special case of LocationMaker.walk (an object whose
   properties are all atomic X(w) items); the general walk is Model/Layout.v (C01), not needed here. *)
From Coq Require Import ZArith NArith List Bool Arith.
Import ListNotations.
Require Import SR.Base.Res SR.Model.HeaderRow SR.Gen.RecfmParams.
Require SR.Model.Registry SR.Model.Recfm SR.Model.Estruct.
Require Import SR.Spec.Transparency.
Open Scope nat_scope.

(* ------------------------------------------------------------------ formats and the registry *)
Inductive fmt :=
| F_CSV | F_TAB | F_XLSX | F_ODS | F_NUMBERS | F_XLS | F_NDJSON | F_FIXED | F_EBCDIC.

Definition fmt_eqb (a b : fmt) : bool :=
  match a, b with
  | F_CSV, F_CSV | F_TAB, F_TAB | F_XLSX, F_XLSX | F_ODS, F_ODS | F_NUMBERS, F_NUMBERS
  | F_XLS, F_XLS | F_NDJSON, F_NDJSON | F_FIXED, F_FIXED | F_EBCDIC, F_EBCDIC => true
  | _, _ => false
  end.

(* the suffix a file of the format carries; None = no suffix is registered for the format, the
   class is named by the caller (CSV_Workbook(path, delimiter=TAB), COBOL_Text_File, COBOL_EBCDIC_File) *)
Definition suffix_of (f : fmt) : option (list N) :=
  match f with
  | F_CSV => Some [46; 99; 115; 118]
  | F_XLSX => Some [46; 120; 108; 115; 120]
  | F_ODS => Some [46; 111; 100; 115]
  | F_NUMBERS => Some [46; 110; 117; 109; 98; 101; 114; 115]
  | F_XLS => Some [46; 120; 108; 115]
  | F_NDJSON => Some [46; 110; 100; 106; 115; 111; 110]
  | F_TAB | F_FIXED | F_EBCDIC => None
  end%N.

(* class ids of Gen/RegistryParams.v: which parser a class applies to its file *)
Definition reader_of_class (c : N) : option fmt :=
  if (c =? 1)%N then Some F_CSV else if (c =? 2)%N then Some F_NDJSON else if (c =? 3)%N then Some F_XLS
  else if (c =? 4)%N then Some F_XLSX else if (c =? 5)%N then Some F_ODS else if (c =? 6)%N then Some F_NUMBERS
  else None.

(* open_workbook(path) for a file of format f: the format whose reader the registry selects *)
Definition reader_for (f : fmt) : res fmt :=
  match suffix_of f with
  | None => Ok f                                           (* the caller names the class *)
  | Some sfx =>
      match fst (Registry.open_workbook Registry.global_registry sfx) with
      | Ok c => match reader_of_class c with Some g => Ok g | None => Err OtherError end
      | Err e => Err e
      end
  end.

(* ------------------------------------------------------------------ what a parser delivers *)
Definition doc := list (key * cell).                      (* a JSON object, keys distinct *)

Inductive content :=
| C_single (rows : sheet)                                 (* csv.reader over the file *)
| C_multi (sheets : list (key * sheet))                   (* xlrd / openpyxl / pyexcel: named sheets *)
| C_numbers (sheets : list (key * list (key * sheet)))    (* numbers_parser: sheets of named tables *)
| C_json (docs : list doc).                               (* json.loads of every line *)

Definition name_sep : key := [58; 58]%N.

(* unpacker.sheet_iter() *)
Definition sheet_names (c : content) : list key :=
  match c with
  | C_single _ => [[]]
  | C_json _ => [[]]
  | C_multi ss => map fst ss
  | C_numbers ss => flat_map (fun s => map (fun t => fst s ++ name_sep ++ fst t) (snd s)) ss
  end.

(* d[k] on a dict keyed by strings; None = KeyError *)
Fixpoint lookup {V} (d : list (key * V)) (k : key) : option V :=
  match d with
  | [] => None
  | (k', v) :: t => if key_eqb k' k then Some v else lookup t k
  end.

(* name.partition(::) : text before the first separator, text after it; no separator: (name, empty) *)
Fixpoint partition_sep (name : key) : key * key :=
  match name with
  | [] => ([], [])
  | c :: t =>
      match t with
      | d :: t' => if (c =? 58)%N && (d =? 58)%N then ([], t')
                   else let (a, b) := partition_sep t in (c :: a, b)
      | [] => ([c], [])
      end
  end.

(* unpacker.instance_iter(name) for the list-of-cells formats *)
Definition wb_instances (c : content) (name : key) : res sheet :=
  match c with
  | C_single rows => Ok rows                               (* the name is not used *)
  | C_multi ss => match lookup ss name with Some rows => Ok rows | None => Err KeyError end
  | C_numbers ss =>
      let (s, t) := partition_sep name in
      match lookup ss s with
      | None => Err KeyError
      | Some tables => match lookup tables t with Some rows => Ok rows | None => Err KeyError end
      end
  | C_json _ => Err OtherError                             (* not a list-of-cells format *)
  end.

(* ------------------------------------------------------------------ what a run observes *)
(* row.name(k).value(): a value, the absent marker (Ok None), or the exception *)
Definition value := res (option cell).
(* list(sheet.rows()) and, for every row, name(k).value() for the probe names in order *)
Definition rows_obs := res (list (list value)).
(* for every Sheet that sheet_iter yields: its name and what reading it gave *)
Definition obs := list (key * rows_obs).

(* probes for the i-th sheet (none when the caller did not expect an i-th sheet) *)
Definition probes_at (probes : list (list key)) (i : nat) : list key := nth i probes [].

(* ---- header-row binding: sheet.set_schema_loader(HeadingRowSchemaLoader()) ---- *)
Definition read_sheet_header (c : content) (name : key) (probes : list key) : rows_obs :=
  bind (wb_instances c name) (fun src =>
  bind (row_iter HeadingRow None src) (fun sr =>
    match fst sr with
    | None => Ok []                                        (* no schema was bound: there are no rows *)
    | Some s => Ok (map (fun r => map (fun k => nav_name s k r) probes) (snd sr))
    end)).

Fixpoint read_sheets_header (c : content) (names : list key) (probes : list (list key)) (i : nat) : obs :=
  match names with
  | [] => []
  | n :: t => (n, read_sheet_header c n (probes_at probes i)) :: read_sheets_header c t probes (S i)
  end.

Definition read_header (c : content) (probes : list (list key)) : obs :=
  read_sheets_header c (sheet_names c) probes 0.

(* ---- explicit binding: sheet.set_schema(schema); the loader is the do-nothing loader ----
   Sheet.row_iter with that loader, for instances of any type: HeaderRow.sheet_row_iter (the rules of
   Gen/HeaderRowParams.v) with SchemaLoader.header (None, nothing consumed) and SchemaLoader.body.  [keep p x] says
   whether the condition p of a filtering body() holds for the instance x.  On list-of-cells instances it is
   HeaderRow.row_iter NoLoader (Proofs/WorkbookP.v rows_preset_is_row_iter). *)
Definition rows_preset {S I} (keep : body_pred -> I -> bool) (preset : option S) (src : list I) : res (list I) :=
  bind (sheet_row_iter keep (fun it => Ok (None, it)) body_base preset src) (fun sr => Ok (snd sr)).

(* a str, bytes or dict instance under a filtering body(): kept when it is not empty (exact for the condition
   P_nonempty; for the any(...) conditions an approximation - no loader of the unchanged source filters) *)
Definition keep_nonempty {A} (_ : body_pred) (x : list A) : bool := match x with [] => false | _ => true end.

(* COBOL_EBCDIC_Sheet.row_iter does not go through the loader: every record becomes a Row *)
Definition rows_plain {S I} (preset : option S) (src : list I) : res (list I) :=
  match src, preset with
  | _ :: _, None => Err AttributeError
  | _, _ => Ok src
  end.

(* DNav.name(k).value(): properties[k], then the member of the document - instance[k] or instance.get(k)
   (Gen/HeaderRowParams.v dnav_missing) *)
Definition dnav_absent : value :=
  match dnav_missing with
  | DM_key_error => Err KeyError
  | DM_none => Ok (Some none_obj)
  end.

Definition dnav_name (s : schema) (k : key) (d : doc) : value :=
  match find_entry s k with
  | None => Err KeyError
  | Some _ => match lookup d k with Some v => Ok (Some v) | None => dnav_absent end
  end.

Definition json_instances (c : content) : res (list doc) :=
  match c with C_json docs => Ok docs | _ => Err OtherError end.

(* the schema handed to set_schema for a sheet whose column names are [names]:
   type object, one string property per name (HeaderRow.hand_schema) *)
Definition read_json (c : content) (probes : list (list key)) : obs :=
  map (fun n =>
         (n, bind (json_instances c) (fun docs =>
             let ks := probes_at probes 0 in
             bind (rows_preset keep_nonempty (Some (hand_schema ks)) docs) (fun rows =>
             Ok (map (fun d => map (fun k => dnav_name (hand_schema ks) k d) ks) rows)))))
      (sheet_names c).

(* the facade run on a third-party format, after the parser delivered [c] *)
Definition facade_read (f : fmt) (c : content) (probes : list (list key)) : obs :=
  match f with
  | F_NDJSON => read_json c probes
  | _ => read_header c probes
  end.

(* open_workbook(path) (or the class named by the caller), then the facade run.  [parse g img] is what the
   third-party parser of format g delivers for the file; the class the registry selects decides which
   parser runs, the caller binds the schema the way the format it wrote allows. *)
Definition open_read {image : Type} (parse : fmt -> image -> content) (f : fmt) (img : image)
  (probes : list (list key)) : res obs :=
  bind (reader_for f) (fun g => Ok (facade_read f (parse g img) probes)).

(* ------------------------------------------------------------------ fixed-width records *)
(* the loaded copybook schema: an object of atomic X(w) items, in order *)
Definition layout := list (key * nat).

(* LocationMaker.walk on the flat object: name -> (start, end) *)
Fixpoint locate (l : layout) (start : nat) : list (key * (nat * nat)) :=
  match l with
  | [] => []
  | (k, w) :: t => (k, (start, start + w)) :: locate t (start + w)
  end.

Definition layout_end (l : layout) : nat := fold_left (fun a p => a + snd p) l 0.

(* instance[a:b] *)
Definition slice {A} (a b : nat) (x : list A) : list A := firstn (b - a) (skipn a x).

(* NDNav.name(k): the field's width and its slice of the instance *)
Definition field {A} (l : layout) (k : key) (inst : list A) : res (nat * list A) :=
  match lookup (locate l 0) k with
  | None => Err KeyError
  | Some (a, b) => Ok (b - a, slice a b inst)
  end.

(* ---- COBOL_Text_File ---- *)
(* a file opened in text mode with the default newline handling: CR LF and CR become LF *)
Fixpoint universal_newlines (s : list N) : list N :=
  match s with
  | [] => []
  | c :: t =>
      if (c =? 13)%N
      then match t with
           | d :: t' => if (d =? 10)%N then 10%N :: universal_newlines t' else 10%N :: universal_newlines t
           | [] => [10%N]
           end
      else c :: universal_newlines t
  end.

(* iter(file): the lines, each with its line feed; a last line without one is delivered as it is *)
Fixpoint lines_from (cur : list N) (s : list N) : list (list N) :=
  match s with
  | [] => match cur with [] => [] | _ => [rev cur] end
  | c :: t => if (c =? 10)%N then rev (c :: cur) :: lines_from [] t else lines_from (c :: cur) t
  end.

Definition text_lines (file : list N) : list (list N) := lines_from [] (universal_newlines file).

Definition text_value (l : layout) (k : key) (line : list N) : value :=
  bind (field l k line) (fun ws => Ok (Some (Txt (snd ws)))).

(* COBOL_Text_File(path).sheet_iter() -> set_schema(schema) -> rows() -> name(k).value() *)
Definition read_fixed (file : list N) (l : layout) (probes : list key) : obs :=
  [([], bind (rows_preset keep_nonempty (Some l) (text_lines file)) (fun rows =>
         Ok (map (fun line => map (fun k => text_value l k line) probes) rows)))].

(* ---- COBOL_EBCDIC_File ---- *)
Inductive recfm := RECFM_N | RECFM_F.

(* number of the spelling DISPLAY in Gen/EstructParams.v; an item without a USAGE clause is DISPLAY *)
Definition usage_DISPLAY : N := 11%N.

Definition ebcdic_value (l : layout) (k : key) (record : list N) : value :=
  bind (field l k record) (fun ws =>
    match Estruct.unpack_x usage_DISPLAY (fst ws) (snd ws) with
    | Ok (Estruct.VStr s) => Ok (Some (Txt s))
    | Ok _ => Err OtherError
    | Err e => Err e
    end).

(* COBOL_EBCDIC_Sheet.set_schema: wb.lrecl if truthy, else the end of the layout *)
Definition sheet_lrecl (wb_lrecl : option nat) (l : layout) : nat :=
  match wb_lrecl with
  | Some (S n) => S n
  | _ => layout_end l
  end.

(* the instances COBOL_EBCDIC_Sheet.row_iter hands to Row: RECFM_F records, or the RECFM_N buffers with
   the consumer announcing location.end after every row.  The loop over a file of n bytes cannot take more
   than n + 1 rounds, so n + 1 announcements are prepared; [More] (announcements exhausted) and [Hang]
   are reported as OtherError and excluded by the theorems. *)
Definition ebcdic_records (r : recfm) (kind : N) (wb_lrecl : option nat) (l : layout) (file : list N)
  : res (list (list N)) :=
  match r with
  | RECFM_F =>
      let '(items, fin, _) := Recfm.F_record_iter kind (Z.of_nat (sheet_lrecl wb_lrecl l)) file in
      match fin with Recfm.Done => Ok items | Recfm.Raised e => Err e | _ => Err OtherError end
  | RECFM_N =>
      let '(items, fin, _) := Recfm.N_read kind file (repeat (layout_end l) (S (length file))) in
      match fin with Recfm.Done => Ok items | Recfm.Raised e => Err e | _ => Err OtherError end
  end.

(* COBOL_EBCDIC_File(path, recfm_class, lrecl).sheet_iter() -> set_schema -> rows() -> name(k).value() *)
Definition read_ebcdic (r : recfm) (kind : N) (wb_lrecl : option nat) (file : list N) (l : layout)
  (probes : list key) : obs :=
  [([], bind (ebcdic_records r kind wb_lrecl l file) (fun recs =>
         bind (rows_plain (Some l) recs) (fun rows =>
         Ok (map (fun rec => map (fun k => ebcdic_value l k rec) probes) rows))))].

(* ------------------------------------------------------------------ abstract tables and files
   The interface between the abstract workbook of Spec/Transparency.v and the parsers' data: what a
   parser delivers for a file that stores W (the header row first, every cell a str), and what the
   property expects a run to observe.  A name is a [text]; [key] and [text] are both [list N]. *)
Definition phys_row (r : list text) : row := map Txt r.
Definition phys_sheet (T : table) : sheet := phys_row (t_header T) :: map phys_row (t_rows T).
(* one JSON object per data row, the column names as keys *)
Definition phys_doc (T : table) (r : list text) : doc := combine (t_header T) (map Txt r).

Definition single_sheet (f : fmt) : bool :=
  match f with F_CSV | F_TAB | F_NDJSON | F_FIXED | F_EBCDIC => true | _ => false end.

(* formats read through a third-party parser whose writer also exists (XLS: xlrd reads, nothing writes) *)
Definition third_party (f : fmt) : bool :=
  match f with F_CSV | F_TAB | F_XLSX | F_ODS | F_XLS | F_NDJSON => true | _ => false end.

(* a single-sheet file stores one table, presented under the empty name *)
Definition storable (f : fmt) (W : workbook) : bool :=
  if single_sheet f then match W with [([], _)] => true | _ => false end else true.

Definition phys (f : fmt) (W : workbook) : content :=
  match f with
  | F_CSV | F_TAB => C_single (match W with [(_, T)] => phys_sheet T | _ => [] end)
  | F_NDJSON => C_json (match W with [(_, T)] => map (phys_doc T) (t_rows T) | _ => [] end)
  | _ => C_multi (map (fun s => (fst s, phys_sheet (snd s))) W)
  end.

Definition phys_numbers (d : numbers_doc) : content :=
  C_numbers (map (fun s => (fst s, map (fun t => (fst t, phys_sheet (snd t))) (snd s))) d).

Definition headers (W : workbook) : list (list key) := map (fun s => t_header (snd s)) W.

(* what the property expects: every sheet by name, every data row, the str cell under every probe
   (the probes are the column names, in header order) *)
Definition expected_rows (T : table) : rows_obs :=
  Ok (map (map (fun c => Ok (Some (Txt c)))) (t_rows T)).
Definition expected (W : workbook) : obs := map (fun s => (fst s, expected_rows (snd s))) W.

(* the same, as associations name -> value, from [cells_by_name] *)
Definition rows_by_name (probes : list key) (o : rows_obs) : res (list (list (key * value))) :=
  match o with Ok rows => Ok (map (combine probes) rows) | Err e => Err e end.
Definition expected_by_name (T : table) : res (list (list (key * value))) :=
  Ok (map (map (fun kc => (fst kc, Ok (Some (Txt (snd kc)))))) (cells_by_name T)).

(* the copybook layout for a table: one X(w) item per column *)
Definition layout_of (names : list key) (widths : list nat) : layout := combine names widths.
