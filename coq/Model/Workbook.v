(* Model of the workbook facade across file formats, as the code is now (C03).

   src/stingray/workbook.py
     WBFileRegistry.open_workbook   class by path suffix (Model/Registry.v, registrations read from the source)
     Workbook.sheet_iter            one Sheet(self, name) per name the unpacker's sheet_iter yields;
                                    a Sheet keeps only the NAME: rows are fetched again by name
     Sheet.row_iter                 unpacker.instance_iter(sheet.name); loader.header; Row per instance
                                    (Model/HeaderRow.v [row_iter] for the list-of-cells instances)
     set_schema                     binds the schema AND installs the do-nothing loader
                                    (Gen/HeaderRowParams.v set_schema_resets_loader; the rules of row_iter, the
                                    loaders and WBNav are read from the source: see Model/HeaderRow.v)
     Row.__init__                   unpacker.nav(sheet.schema, instance): AttributeError without a schema
     CSVUnpacker / JSONUnpacker     sheet_iter yields the empty name only; instance_iter ignores the name
     COBOL_Text_File                TextUnpacker: sheet_iter yields the empty name; instances = the lines of
                                    the text file, line ends included
     COBOL_EBCDIC_File / _Sheet     sheet_iter yields the empty name; set_schema fixes lrecl (the workbook's
                                    if truthy, else the end of the layout); row_iter = records of the RECFM
                                    reader, Row per record, then used(location.end)
   src/stingray/implementations.py
     XLS/XLSX/ODS/Numbers unpackers sheet_iter and instance_iter are NOT written here: how each class turns the parsed
                                    document into sheet names and rows (which names, in which order, the Numbers
                                    composite and its separator, how a sheet is found by name, which rows, which
                                    attribute of a cell, any conversion) is the record glue_XLS / glue_XLSX / glue_ODS /
                                    glue_NUMBERS of Gen/ImplParams.v, read from the source on every run by
                                    harness/t1_impl.py.  [names_with] / [instances_book] / [instances_numbers] below
                                    INTERPRET those records; Proofs/WorkbookP.v re-derives the closed forms
                                    (rule_names_book, rule_instances_book, rule_names_numbers, rule_instances_numbers,
                                    name_sep_eq, partition_sep_unf) from the current values.
   src/stingray/schema_instance.py
     WBNav.name / value             Model/HeaderRow.v [nav_name]
     DNav.name / value              schema.properties[name] (KeyError), instance[name] (KeyError); the value itself
     LocationMaker.walk             object of atomic fields: field i starts where field i-1 ends, size =
                                    unpacker.calcsize (TextUnpacker: maxLength; EBCDIC: estruct.calcsize of X(w) = w)
     NDNav.name / value             location.properties[name] (KeyError); unpacker.value(schema, instance[start:end])
     TextUnpacker.value             CONVERSION[type string] = str: the slice itself
     EBCDIC.value                   CONVERSION[None] = identity on estruct.unpack(cobol clause, slice):
                                    Model/Estruct.v [unpack_x] (cp037 text, ValueError when the slice is short)

   What a third-party parser delivers for a file is a value of type [content] (the parsers themselves are
   outside the model: Section variables in Proofs/WorkbookP.v).  The two formats the library decodes itself
   are modelled down to the file image: a text file is its decoded characters, an EBCDIC file its bytes.

   The layout of a fixed-width record is the FLAT special case of LocationMaker.walk (an object whose
   properties are all atomic X(w) items); the general walk is Model/Layout.v (C01), not needed here. *)
From Coq Require Import ZArith NArith List Bool Arith.
Import ListNotations.
Require Import SR.Base.Res SR.Model.HeaderRow SR.Gen.RecfmParams.
Require Export SR.Gen.ImplParams.
Require SR.Model.Registry SR.Model.Recfm SR.Model.Estruct.
Require Import SR.Spec.Transparency.
Open Scope nat_scope.

(* ------------------------------------------------------------------ formats and the registry *)
Inductive fmt :=
| F_CSV | F_TAB | F_XLSX | F_ODS | F_NUMBERS | F_XLS | F_NDJSON | F_FIXED | F_EBCDIC.

Definition fmt_eqb (a b : fmt) : bool :=
  match a, b with
  | F_CSV, F_CSV | F_TAB, F_TAB | F_XLSX, F_XLSX | F_ODS, F_ODS | F_NUMBERS, F_NUMBERS
  | F_XLS, F_XLS | F_NDJSON, F_NDJSON | F_FIXED, F_FIXED | F_EBCDIC, F_EBCDIC => true
  | _, _ => false
  end.

(* the suffix a file of the format carries; None = no suffix is registered for the format, the
   class is named by the caller (CSV_Workbook(path, delimiter=TAB), COBOL_Text_File, COBOL_EBCDIC_File) *)
Definition suffix_of (f : fmt) : option (list N) :=
  match f with
  | F_CSV => Some [46; 99; 115; 118]
  | F_XLSX => Some [46; 120; 108; 115; 120]
  | F_ODS => Some [46; 111; 100; 115]
  | F_NUMBERS => Some [46; 110; 117; 109; 98; 101; 114; 115]
  | F_XLS => Some [46; 120; 108; 115]
  | F_NDJSON => Some [46; 110; 100; 106; 115; 111; 110]
  | F_TAB | F_FIXED | F_EBCDIC => None
  end%N.

(* class ids of Gen/RegistryParams.v: which parser a class applies to its file *)
Definition reader_of_class (c : N) : option fmt :=
  if (c =? 1)%N then Some F_CSV else if (c =? 2)%N then Some F_NDJSON else if (c =? 3)%N then Some F_XLS
  else if (c =? 4)%N then Some F_XLSX else if (c =? 5)%N then Some F_ODS else if (c =? 6)%N then Some F_NUMBERS
  else None.

(* open_workbook(path) for a file of format f: the format whose reader the registry selects *)
Definition reader_for (f : fmt) : res fmt :=
  match suffix_of f with
  | None => Ok f                                           (* the caller names the class *)
  | Some sfx =>
      match fst (Registry.open_workbook Registry.global_registry sfx) with
      | Ok c => match reader_of_class c with Some g => Ok g | None => Err OtherError end
      | Err e => Err e
      end
  end.

(* ------------------------------------------------------------------ what a parser delivers *)
Definition doc := list (key * cell).                      (* a JSON object, keys distinct *)

(* the three libraries whose document is a book of named sheets; numbers_parser's document has sheets of tables *)
Inductive book := B_XLS | B_XLSX | B_ODS.
Inductive office := O_book (b : book) | O_NUMBERS.

Inductive content :=
| C_single (rows : sheet)                                 (* csv.reader over the file *)
| C_multi (lib : book) (sheets : list (key * sheet))      (* the Book of xlrd / Workbook of openpyxl / Book of pyexcel: named sheets *)
| C_numbers (sheets : list (key * list (key * sheet)))    (* numbers_parser: sheets of named tables *)
| C_json (docs : list doc).                               (* json.loads of every line *)

(* ---- the glue of src/stingray/implementations.py: an interpreter of Gen/ImplParams.v ----
   Facts about the third-party libraries (fixed here, not read from the source; tied by the correspondence run):
   the spellings the translator accepts for NA_names give the stored sheet names in stored order; a lookup by name of a
   sheet that is not there raises KeyError; get_rows() / iter_rows() / rows / iteration give every stored row in stored
   order; the items of a row are cell objects whose attribute value is the stored value - except pyexcel, whose rows are
   lists of the values themselves, and iter_rows(values_only=True); iter_rows counts rows from 1 in openpyxl and from 0
   in numbers_parser, both bounds included. *)
Definition glue_of (o : office) : glue :=
  match o with
  | O_book B_XLS => glue_XLS
  | O_book B_XLSX => glue_XLSX
  | O_book B_ODS => glue_ODS
  | O_NUMBERS => glue_NUMBERS
  end.

Definition items_are_objects (o : office) (g : glue) : bool :=
  match o with O_book B_ODS => false | _ => negb (g_values_only g) end.

Definition first_row_number (o : office) : Z := match o with O_book B_XLSX => 1%Z | _ => 0%Z end.

(* Python's reading of a slice bound for a sequence of n items: omitted = default, negative = from the end, clipped *)
Definition py_bound (n default : nat) (i : option Z) : nat :=
  match i with
  | None => default
  | Some z => if (z <? 0)%Z then Z.to_nat (Z.max 0 (Z.of_nat n + z)) else Nat.min n (Z.to_nat z)
  end.

(* x[::step]: the items at 0, step, 2 step, ... ([k] = how many items to pass over before the next one taken) *)
Fixpoint every_aux {A} (step k : nat) (l : list A) : list A :=
  match l with
  | [] => []
  | x :: t => match k with O => x :: every_aux step (pred step) t | S k' => every_aux step k' t end
  end.

Definition apply_op {A} (op : seq_op) (l : list A) : list A :=
  match op with
  | SO_reversed => rev l
  | SO_slice a b c =>
      let n := length l in
      let i := py_bound n 0 a in
      let j := py_bound n n b in
      every_aux c 0 (firstn (j - i) (skipn i l))
  end.

Definition apply_ops {A} (ops : list seq_op) (l : list A) : list A := fold_left (fun x op => apply_op op x) ops l.

Fixpoint map_res {A B} (f : A -> res B) (l : list A) : res (list B) :=
  match l with
  | [] => Ok []
  | x :: t => bind (f x) (fun y => bind (map_res f t) (fun ys => Ok (y :: ys)))
  end.

(* d[k] on a dict keyed by strings; None = KeyError *)
Fixpoint lookup {V} (d : list (key * V)) (k : key) : option V :=
  match d with
  | [] => None
  | (k', v) :: t => if key_eqb k' k then Some v else lookup t k
  end.

(* name.partition(sep) for a non-empty sep: text before the first separator, text after it; no separator: (name, empty) *)
Fixpoint strip_prefix (p s : key) : option key :=
  match p, s with
  | [], _ => Some s
  | a :: p', b :: s' => if (b =? a)%N then strip_prefix p' s' else None
  | _ :: _, [] => None
  end.

Fixpoint partition_by (sep name : key) : key * key :=
  match strip_prefix sep name with
  | Some rest => ([], rest)
  | None => match name with
            | [] => ([], [])
            | c :: t => let (a, b) := partition_by sep t in (c :: a, b)
            end
  end.

(* ---- one cell: the expression g_cell over the item of the row ---- *)
Inductive pyval := PV_object (c : cell) | PV_value (c : cell).    (* a cell object holding c; the value c itself *)
Definition k_value : key := [118; 97; 108; 117; 101]%N.          (* the attribute name value *)
Definition k_cell_repr : key := [60; 67; 101; 108; 108; 62]%N.   (* str() of a cell object: not modelled further *)

Fixpoint eval_cell (e : cell_expr) (item : pyval) : res pyval :=
  match e with
  | CE_item => Ok item
  | CE_attr a e' =>
      bind (eval_cell e' item) (fun v =>
        match v with
        | PV_object c => if key_eqb a k_value then Ok (PV_value c) else Err AttributeError
        | PV_value _ => Err AttributeError                 (* a str, a number, None have no such attribute *)
        end)
  | CE_str e' =>
      bind (eval_cell e' item) (fun v =>
        match v with
        | PV_value c => Ok (PV_value (Txt (str_of c)))
        | PV_object _ => Ok (PV_value (Txt k_cell_repr))
        end)
  end.

Definition deliver_cell (o : office) (g : glue) (c : cell) : res cell :=
  bind (eval_cell (g_cell g) (if items_are_objects o g then PV_object c else PV_value c)) (fun v =>
    match v with
    | PV_value c' => Ok c'
    | PV_object _ => Ok (Obj 9 k_cell_repr)                (* the cell object itself is delivered *)
    end).

Definition deliver_row (o : office) (g : glue) (r : row) : res row :=
  map_res (deliver_cell o g) (apply_ops (g_cells_ops g) r).

(* the rows iterated: iter_rows(min_row, max_row), then the sequence steps; nothing when the guard finds the sheet falsy
   (a sheet without rows) *)
Definition pick_rows (o : office) (g : glue) (rows : sheet) : sheet :=
  let base := first_row_number o in
  let lo := match g_min_row g with None => 0 | Some z => Z.to_nat (z - base) end in
  let hi := match g_max_row g with None => length rows | Some z => Z.to_nat (z - base + 1) end in
  let picked := apply_ops (g_rows_ops g) (firstn (hi - lo) (skipn lo rows)) in
  if g_rows_guard g then match rows with [] => [] | _ => picked end else picked.

(* list(instance_iter(name)) once the sheet is found (an exception while a row is built: the whole read fails) *)
Definition deliver (o : office) (g : glue) (rows : sheet) : res sheet :=
  map_res (deliver_row o g) (pick_rows o g rows).

(* the separator of the Numbers composite name, and the one instance_iter partitions at *)
Definition name_sep : key := match g_names glue_NUMBERS with NA_composite sep => sep | NA_names => [] end.
Definition part_sep : key := match g_lookup glue_NUMBERS with LK_partition sep => sep | LK_name => [] end.
Definition partition_sep (name : key) : key * key := partition_by part_sep name.

(* list(unpacker.sheet_iter()) *)
Definition names_book (g : glue) (ss : list (key * sheet)) : list key :=
  match g_names g with
  | NA_names => apply_ops (g_names_ops g) (map fst ss)
  | NA_composite _ => []                                   (* a book has no tables *)
  end.

Definition names_numbers (g : glue) (ss : list (key * list (key * sheet))) : list key :=
  match g_names g with
  | NA_composite sep =>
      flat_map (fun s => map (fun t => fst s ++ sep ++ fst t) (apply_ops (g_tables_ops g) (snd s)))
               (apply_ops (g_names_ops g) ss)
  | NA_names => apply_ops (g_names_ops g) (map fst ss)
  end.

Definition sheet_names (c : content) : list key :=
  match c with
  | C_single _ => [[]]
  | C_json _ => [[]]
  | C_multi b ss => names_book (glue_of (O_book b)) ss
  | C_numbers ss => names_numbers glue_NUMBERS ss
  end.

(* list(unpacker.instance_iter(name)) for the office formats *)
Definition instances_book (o : office) (g : glue) (ss : list (key * sheet)) (name : key) : res sheet :=
  match g_lookup g with
  | LK_name => match lookup ss name with Some rows => deliver o g rows | None => Err KeyError end
  | LK_partition _ => Err OtherError
  end.

Definition instances_numbers (g : glue) (ss : list (key * list (key * sheet))) (name : key) : res sheet :=
  match g_lookup g with
  | LK_partition sep =>
      let (s, t) := partition_by sep name in
      match lookup ss s with
      | None => Err KeyError
      | Some tables => match lookup tables t with Some rows => deliver O_NUMBERS g rows | None => Err KeyError end
      end
  | LK_name => Err OtherError
  end.

(* unpacker.instance_iter(name) for the list-of-cells formats *)
Definition wb_instances (c : content) (name : key) : res sheet :=
  match c with
  | C_single rows => Ok rows                               (* the name is not used *)
  | C_multi b ss => instances_book (O_book b) (glue_of (O_book b)) ss name
  | C_numbers ss => instances_numbers glue_NUMBERS ss name
  | C_json _ => Err OtherError                             (* not a list-of-cells format *)
  end.

(* ------------------------------------------------------------------ what a run observes *)
(* row.name(k).value(): a value, the absent marker (Ok None), or the exception *)
Definition value := res (option cell).
(* list(sheet.rows()) and, for every row, name(k).value() for the probe names in order *)
Definition rows_obs := res (list (list value)).
(* for every Sheet that sheet_iter yields: its name and what reading it gave *)
Definition obs := list (key * rows_obs).

(* probes for the i-th sheet (none when the caller did not expect an i-th sheet) *)
Definition probes_at (probes : list (list key)) (i : nat) : list key := nth i probes [].

(* ---- header-row binding: sheet.set_schema_loader(HeadingRowSchemaLoader()) ---- *)
Definition read_sheet_header (c : content) (name : key) (probes : list key) : rows_obs :=
  bind (wb_instances c name) (fun src =>
  bind (row_iter HeadingRow None src) (fun sr =>
    match fst sr with
    | None => Ok []                                        (* no schema was bound: there are no rows *)
    | Some s => Ok (map (fun r => map (fun k => nav_name s k r) probes) (snd sr))
    end)).

Fixpoint read_sheets_header (c : content) (names : list key) (probes : list (list key)) (i : nat) : obs :=
  match names with
  | [] => []
  | n :: t => (n, read_sheet_header c n (probes_at probes i)) :: read_sheets_header c t probes (S i)
  end.

Definition read_header (c : content) (probes : list (list key)) : obs :=
  read_sheets_header c (sheet_names c) probes 0.

(* ---- explicit binding: sheet.set_schema(schema); the loader is the do-nothing loader ----
   Sheet.row_iter with that loader, for instances of any type: HeaderRow.sheet_row_iter (the rules of
   Gen/HeaderRowParams.v) with SchemaLoader.header (None, nothing consumed) and SchemaLoader.body.  [keep p x] says
   whether the condition p of a filtering body() holds for the instance x.  On list-of-cells instances it is
   HeaderRow.row_iter NoLoader (Proofs/WorkbookP.v rows_preset_is_row_iter). *)
Definition rows_preset {S I} (keep : body_pred -> I -> bool) (preset : option S) (src : list I) : res (list I) :=
  bind (sheet_row_iter keep (fun it => Ok (None, it)) body_base preset src) (fun sr => Ok (snd sr)).

(* a str, bytes or dict instance under a filtering body(): kept when it is not empty (exact for the condition
   P_nonempty; for the any(...) conditions an approximation - no loader of the unchanged source filters) *)
Definition keep_nonempty {A} (_ : body_pred) (x : list A) : bool := match x with [] => false | _ => true end.

(* COBOL_EBCDIC_Sheet.row_iter does not go through the loader: every record becomes a Row *)
Definition rows_plain {S I} (preset : option S) (src : list I) : res (list I) :=
  match src, preset with
  | _ :: _, None => Err AttributeError
  | _, _ => Ok src
  end.

(* DNav.name(k).value(): properties[k], then the member of the document - instance[k] or instance.get(k)
   (Gen/HeaderRowParams.v dnav_missing) *)
Definition dnav_absent : value :=
  match dnav_missing with
  | DM_key_error => Err KeyError
  | DM_none => Ok (Some none_obj)
  end.

Definition dnav_name (s : schema) (k : key) (d : doc) : value :=
  match find_entry s k with
  | None => Err KeyError
  | Some _ => match lookup d k with Some v => Ok (Some v) | None => dnav_absent end
  end.

Definition json_instances (c : content) : res (list doc) :=
  match c with C_json docs => Ok docs | _ => Err OtherError end.

(* the schema handed to set_schema for a sheet whose column names are [names]:
   type object, one string property per name (HeaderRow.hand_schema) *)
Definition read_json (c : content) (probes : list (list key)) : obs :=
  map (fun n =>
         (n, bind (json_instances c) (fun docs =>
             let ks := probes_at probes 0 in
             bind (rows_preset keep_nonempty (Some (hand_schema ks)) docs) (fun rows =>
             Ok (map (fun d => map (fun k => dnav_name (hand_schema ks) k d) ks) rows)))))
      (sheet_names c).

(* the facade run on a third-party format, after the parser delivered [c] *)
Definition facade_read (f : fmt) (c : content) (probes : list (list key)) : obs :=
  match f with
  | F_NDJSON => read_json c probes
  | _ => read_header c probes
  end.

(* open_workbook(path) (or the class named by the caller), then the facade run.  [parse g img] is what the
   third-party parser of format g delivers for the file; the class the registry selects decides which
   parser runs, the caller binds the schema the way the format it wrote allows. *)
Definition open_read {image : Type} (parse : fmt -> image -> content) (f : fmt) (img : image)
  (probes : list (list key)) : res obs :=
  bind (reader_for f) (fun g => Ok (facade_read f (parse g img) probes)).

(* ------------------------------------------------------------------ fixed-width records *)
(* the loaded copybook schema: an object of atomic X(w) items, in order *)
Definition layout := list (key * nat).

(* LocationMaker.walk on the flat object: name -> (start, end) *)
Fixpoint locate (l : layout) (start : nat) : list (key * (nat * nat)) :=
  match l with
  | [] => []
  | (k, w) :: t => (k, (start, start + w)) :: locate t (start + w)
  end.

Definition layout_end (l : layout) : nat := fold_left (fun a p => a + snd p) l 0.

(* instance[a:b] *)
Definition slice {A} (a b : nat) (x : list A) : list A := firstn (b - a) (skipn a x).

(* NDNav.name(k): the field's width and its slice of the instance *)
Definition field {A} (l : layout) (k : key) (inst : list A) : res (nat * list A) :=
  match lookup (locate l 0) k with
  | None => Err KeyError
  | Some (a, b) => Ok (b - a, slice a b inst)
  end.

(* ---- COBOL_Text_File ---- *)
(* a file opened in text mode with the default newline handling: CR LF and CR become LF *)
Fixpoint universal_newlines (s : list N) : list N :=
  match s with
  | [] => []
  | c :: t =>
      if (c =? 13)%N
      then match t with
           | d :: t' => if (d =? 10)%N then 10%N :: universal_newlines t' else 10%N :: universal_newlines t
           | [] => [10%N]
           end
      else c :: universal_newlines t
  end.

(* iter(file): the lines, each with its line feed; a last line without one is delivered as it is *)
Fixpoint lines_from (cur : list N) (s : list N) : list (list N) :=
  match s with
  | [] => match cur with [] => [] | _ => [rev cur] end
  | c :: t => if (c =? 10)%N then rev (c :: cur) :: lines_from [] t else lines_from (c :: cur) t
  end.

Definition text_lines (file : list N) : list (list N) := lines_from [] (universal_newlines file).

Definition text_value (l : layout) (k : key) (line : list N) : value :=
  bind (field l k line) (fun ws => Ok (Some (Txt (snd ws)))).

(* COBOL_Text_File(path).sheet_iter() -> set_schema(schema) -> rows() -> name(k).value() *)
Definition read_fixed (file : list N) (l : layout) (probes : list key) : obs :=
  [([], bind (rows_preset keep_nonempty (Some l) (text_lines file)) (fun rows =>
         Ok (map (fun line => map (fun k => text_value l k line) probes) rows)))].

(* ---- COBOL_EBCDIC_File ---- *)
Inductive recfm := RECFM_N | RECFM_F.

(* number of the spelling DISPLAY in Gen/EstructParams.v; an item without a USAGE clause is DISPLAY *)
Definition usage_DISPLAY : N := 11%N.

Definition ebcdic_value (l : layout) (k : key) (record : list N) : value :=
  bind (field l k record) (fun ws =>
    match Estruct.unpack_x usage_DISPLAY (fst ws) (snd ws) with
    | Ok (Estruct.VStr s) => Ok (Some (Txt s))
    | Ok _ => Err OtherError
    | Err e => Err e
    end).

(* COBOL_EBCDIC_Sheet.set_schema: wb.lrecl if truthy, else the end of the layout *)
Definition sheet_lrecl (wb_lrecl : option nat) (l : layout) : nat :=
  match wb_lrecl with
  | Some (S n) => S n
  | _ => layout_end l
  end.

(* the instances COBOL_EBCDIC_Sheet.row_iter hands to Row: RECFM_F records, or the RECFM_N buffers with
   the consumer announcing location.end after every row.  The loop over a file of n bytes cannot take more
   than n + 1 rounds, so n + 1 announcements are prepared; [More] (announcements exhausted) and [Hang]
   are reported as OtherError and excluded by the theorems. *)
Definition ebcdic_records (r : recfm) (kind : N) (wb_lrecl : option nat) (l : layout) (file : list N)
  : res (list (list N)) :=
  match r with
  | RECFM_F =>
      let '(items, fin, _) := Recfm.F_record_iter kind (Z.of_nat (sheet_lrecl wb_lrecl l)) file in
      match fin with Recfm.Done => Ok items | Recfm.Raised e => Err e | _ => Err OtherError end
  | RECFM_N =>
      let '(items, fin, _) := Recfm.N_read kind file (repeat (layout_end l) (S (length file))) in
      match fin with Recfm.Done => Ok items | Recfm.Raised e => Err e | _ => Err OtherError end
  end.

(* COBOL_EBCDIC_File(path, recfm_class, lrecl).sheet_iter() -> set_schema -> rows() -> name(k).value() *)
Definition read_ebcdic (r : recfm) (kind : N) (wb_lrecl : option nat) (file : list N) (l : layout)
  (probes : list key) : obs :=
  [([], bind (ebcdic_records r kind wb_lrecl l file) (fun recs =>
         bind (rows_plain (Some l) recs) (fun rows =>
         Ok (map (fun rec => map (fun k => ebcdic_value l k rec) probes) rows))))].

(* ------------------------------------------------------------------ abstract tables and files
   The interface between the abstract workbook of Spec/Transparency.v and the parsers' data: what a
   parser delivers for a file that stores W (the header row first, every cell a str), and what the
   property expects a run to observe.  A name is a [text]; [key] and [text] are both [list N]. *)
Definition phys_row (r : list text) : row := map Txt r.
Definition phys_sheet (T : table) : sheet := phys_row (t_header T) :: map phys_row (t_rows T).
(* one JSON object per data row, the column names as keys *)
Definition phys_doc (T : table) (r : list text) : doc := combine (t_header T) (map Txt r).

Definition single_sheet (f : fmt) : bool :=
  match f with F_CSV | F_TAB | F_NDJSON | F_FIXED | F_EBCDIC => true | _ => false end.

(* formats read through a third-party parser whose writer also exists (XLS: xlrd reads, nothing writes) *)
Definition third_party (f : fmt) : bool :=
  match f with F_CSV | F_TAB | F_XLSX | F_ODS | F_XLS | F_NDJSON => true | _ => false end.

(* a single-sheet file stores one table, presented under the empty name *)
Definition storable (f : fmt) (W : workbook) : bool :=
  if single_sheet f then match W with [([], _)] => true | _ => false end else true.

(* the library whose document a file of the format is (formats without a book of sheets: not used) *)
Definition book_of (f : fmt) : book :=
  match f with F_XLS => B_XLS | F_ODS => B_ODS | _ => B_XLSX end.

Definition phys (f : fmt) (W : workbook) : content :=
  match f with
  | F_CSV | F_TAB => C_single (match W with [(_, T)] => phys_sheet T | _ => [] end)
  | F_NDJSON => C_json (match W with [(_, T)] => map (phys_doc T) (t_rows T) | _ => [] end)
  | _ => C_multi (book_of f) (map (fun s => (fst s, phys_sheet (snd s))) W)
  end.

Definition phys_numbers (d : numbers_doc) : content :=
  C_numbers (map (fun s => (fst s, map (fun t => (fst t, phys_sheet (snd t))) (snd s))) d).

Definition headers (W : workbook) : list (list key) := map (fun s => t_header (snd s)) W.

(* what the property expects: every sheet by name, every data row, the str cell under every probe
   (the probes are the column names, in header order) *)
Definition expected_rows (T : table) : rows_obs :=
  Ok (map (map (fun c => Ok (Some (Txt c)))) (t_rows T)).
Definition expected (W : workbook) : obs := map (fun s => (fst s, expected_rows (snd s))) W.

(* the same, as associations name -> value, from [cells_by_name] *)
Definition rows_by_name (probes : list key) (o : rows_obs) : res (list (list (key * value))) :=
  match o with Ok rows => Ok (map (combine probes) rows) | Err e => Err e end.
Definition expected_by_name (T : table) : res (list (list (key * value))) :=
  Ok (map (map (fun kc => (fst kc, Ok (Some (Txt (snd kc)))))) (cells_by_name T)).

(* the copybook layout for a table: one X(w) item per column *)
Definition layout_of (names : list key) (widths : list nat) : layout := combine names widths.
