(* Python decimal.Decimal values as the code uses them: sign, coefficient, exponent
   (value = (-1)^neg * coef * 10^dexp), multiplication under the default context
   (precision 28, ROUND_HALF_EVEN). *)
From Coq Require Import ZArith NArith List Bool.
Import ListNotations.
Open Scope N_scope.

Record dec := mkdec { neg : bool; coef : N; dexp : Z }.

Definition dec_eqb (a b : dec) : bool :=
  (coef a =? coef b) && Z.eqb (dexp a) (dexp b) && (Bool.eqb (neg a) (neg b) || (coef a =? 0)).

(* value of a digit list, most significant first *)
Definition val (ds : list N) : N := fold_left (fun a d => 10 * a + d) ds 0.

(* number of decimal digits of n (0 for 0) *)
Fixpoint ndigits_fuel (fuel : nat) (n : N) : nat :=
  match fuel with
  | O => O
  | S f => if n =? 0 then O else S (ndigits_fuel f (n / 10))
  end.
Definition ndigits (n : N) : nat := ndigits_fuel (S (N.size_nat n)) n.

Definition prec : N := 28.
Definition limit : N := 10 ^ prec.

(* round to at most 28 significant digits, half to even *)
Definition round_ctx (d : dec) : dec :=
  if coef d <? limit then d
  else
    let k := N.of_nat (ndigits (coef d)) - prec in
    let p := 10 ^ k in
    let q := coef d / p in
    let r := coef d mod p in
    let up := (p <? 2 * r) || ((2 * r =? p) && N.odd q) in
    let q' := if up then q + 1 else q in
    if q' =? limit then mkdec (neg d) (10 ^ (prec - 1)) (dexp d + Z.of_N k + 1)
    else mkdec (neg d) q' (dexp d + Z.of_N k).

Definition dec_mul (a b : dec) : dec :=
  round_ctx (mkdec (xorb (neg a) (neg b)) (coef a * coef b) (dexp a + dexp b)).

(* Decimal(10) ** (-n) *)
Definition dec_scale (n : nat) : dec := mkdec false 1 (- Z.of_nat n).
(* the int +1 / -1 converted to Decimal *)
Definition dec_sign (negative : bool) : dec := mkdec negative 1 0.
