(* Results of Python calls: a value or the class of the exception raised. *)
From Coq Require Import ZArith List Bool.
Import ListNotations.
Require Import SR.Base.Sx.
Open Scope Z_scope.

Inductive exn :=
| ValueError | TypeError | IndexError | KeyError | RuntimeError | NotImplementedError
| StructError | DecimalInvalid | DesignError | AttributeError | StopIter | AssertionError | OtherError.

Definition exn_code (e : exn) : Z :=
  match e with
  | ValueError => 1 | TypeError => 2 | IndexError => 3 | KeyError => 4 | RuntimeError => 5
  | NotImplementedError => 6 | StructError => 7 | DecimalInvalid => 8 | DesignError => 9
  | AttributeError => 10 | StopIter => 11 | AssertionError => 12 | OtherError => 99
  end.

Definition exn_eqb (a b : exn) : bool := Z.eqb (exn_code a) (exn_code b).

Inductive res (T : Type) := Ok (v : T) | Err (e : exn).
Arguments Ok {T} v.
Arguments Err {T} e.

Definition bind {T U} (r : res T) (f : T -> res U) : res U :=
  match r with Ok v => f v | Err e => Err e end.

Definition is_ok {T} (r : res T) : bool := match r with Ok _ => true | Err _ => false end.

(* wire form of a result: (0 payload) for Ok, (1 code) for Err *)
Definition sx_of_res {T} (f : T -> sx) (r : res T) : sx :=
  match r with Ok v => L [A 0; f v] | Err e => L [A 1; A (exn_code e)] end.
