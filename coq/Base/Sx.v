(* S-expressions: the wire format between the Python harness and the Coq judge.
   Python writes  (1 2 (3 4))  ; the OCaml driver and the cases.v cross-check both
   build the same [sx] value.  Strings travel as lists of code points. *)
From Coq Require Import ZArith List Bool.
Import ListNotations.
Open Scope Z_scope.

Inductive sx := A (z : Z) | L (l : list sx).

Fixpoint sx_eqb (a b : sx) {struct a} : bool :=
  match a, b with
  | A x, A y => Z.eqb x y
  | L xs, L ys =>
      (fix go (xs ys : list sx) {struct xs} : bool :=
         match xs, ys with
         | [], [] => true
         | x :: xs', y :: ys' => sx_eqb x y && go xs' ys'
         | _, _ => false
         end) xs ys
  | _, _ => false
  end.

Definition as_Z (s : sx) : Z := match s with A z => z | L _ => 0 end.
Definition as_N (s : sx) : N := Z.to_N (as_Z s).
Definition as_nat (s : sx) : nat := Z.to_nat (as_Z s).
Definition as_bool (s : sx) : bool := negb (Z.eqb (as_Z s) 0).
Definition as_list (s : sx) : list sx := match s with A _ => [] | L l => l end.
Definition as_Zs (s : sx) : list Z := map as_Z (as_list s).
Definition as_Ns (s : sx) : list N := map as_N (as_list s).
Definition as_nats (s : sx) : list nat := map as_nat (as_list s).
Definition nth_sx (n : nat) (s : sx) : sx := nth n (as_list s) (L []).

Definition of_Zs (l : list Z) : sx := L (map A l).
Definition of_Ns (l : list N) : sx := L (map (fun n => A (Z.of_N n)) l).
Definition of_nat (n : nat) : sx := A (Z.of_nat n).
Definition of_N (n : N) : sx := A (Z.of_N n).
Definition of_bool (b : bool) : sx := A (if b then 1 else 0).

(* Verdicts (first element of the judge's answer):
   0 PASS   1 VIOLATION   2 KNOWN-FINDING k   3 CORRESPONDENCE (impl <> model, property still good) *)
Definition verdict (known : option Z) (good agree : bool) (branch : Z) (detail : sx) : sx :=
  if good then
    (if agree then L [A 0; A branch]
     else match known with
          | Some _ => L [A 0; A branch]
          | None => L [A 3; A branch; detail]
          end)
  else match known with
       | Some k => if agree then L [A 2; A branch; A k] else L [A 1; A branch; detail]
       | None => L [A 1; A branch; detail]
       end.
