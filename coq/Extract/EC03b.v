Require Import ExtrOcamlBasic.
Require Import SR.Judge.JC03b.
Extraction "build/C03b/judge.ml" JC03b.judge.
