Require Import ExtrOcamlBasic.
Require Import SR.Judge.JC12.
Extraction "build/C12/judge.ml" JC12.judge.
