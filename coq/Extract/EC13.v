Require Import ExtrOcamlBasic.
Require Import SR.Judge.JC13.
Extraction "build/C13/judge.ml" JC13.judge.
