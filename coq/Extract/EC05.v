Require Import ExtrOcamlBasic.
Require Import SR.Judge.JC05.
Extraction "build/C05/judge.ml" JC05.judge.
