Require Import ExtrOcamlBasic.
Require Import SR.Judge.JC11.
Extraction "build/C11/judge.ml" JC11.judge.
