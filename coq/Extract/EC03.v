Require Import ExtrOcamlBasic.
Require Import SR.Judge.JC03.
Extraction "build/C03/judge.ml" JC03.judge.
