Require Import ExtrOcamlBasic.
Require Import SR.Judge.JC17.
Extraction "build/C17/judge.ml" JC17.judge.
