Require Import ExtrOcamlBasic.
Require Import SR.Judge.JC01.
Extraction "build/C01/judge.ml" JC01.judge.
