Require Import ExtrOcamlBasic.
Require Import SR.Judge.JC07b.
Extraction "build/C07b/judge.ml" JC07b.judge.
