Require Import ExtrOcamlBasic.
Require Import SR.Judge.JC14.
Extraction "build/C14/judge.ml" JC14.judge.
