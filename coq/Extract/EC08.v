Require Import ExtrOcamlBasic.
Require Import SR.Judge.JC08.
Extraction "build/C08/judge.ml" JC08.judge.
