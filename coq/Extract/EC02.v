Require Import ExtrOcamlBasic.
Require Import SR.Judge.JC02.
Extraction "build/C02/judge.ml" JC02.judge.
