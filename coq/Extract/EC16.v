Require Import ExtrOcamlBasic.
Require Import SR.Judge.JC16.
Extraction "build/C16/judge.ml" JC16.judge.
