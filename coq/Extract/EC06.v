Require Import ExtrOcamlBasic.
Require Import SR.Judge.JC06.
Extraction "build/C06/judge.ml" JC06.judge.
