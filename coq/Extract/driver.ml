(* Generic driver: one S-expression per input line -> Judge.judge -> one S-expression per
   output line.  The only hand-written OCaml in the trusted base.  Integers of any size
   are converted between decimal text and the extracted binary [positive]. *)
open Judge

(* ---- decimal string <-> positive ---- *)
let rec pos_of_int (n : int) : positive =
  if n = 1 then XH else if n land 1 = 0 then XO (pos_of_int (n lsr 1)) else XI (pos_of_int (n lsr 1))

(* divide a decimal digit array (most significant first) by 2, return remainder *)
let halve (d : int array) : int =
  let r = ref 0 in
  for i = 0 to Array.length d - 1 do
    let v = !r * 10 + d.(i) in
    d.(i) <- v / 2; r := v mod 2
  done; !r

let is_zero d = Array.for_all (fun x -> x = 0) d

let pos_of_decimal (s : string) : positive =
  if String.length s <= 17 then pos_of_int (int_of_string s) else begin
    let d = Array.init (String.length s) (fun i -> Char.code s.[i] - 48) in
    let bits = ref [] in
    while not (is_zero d) do bits := halve d :: !bits done;
    (* !bits is most significant first; the leading bit is 1 *)
    match !bits with
    | [] -> failwith "zero"
    | _ :: rest -> List.fold_left (fun acc b -> if b = 1 then XI acc else XO acc) XH rest
  end

let z_of_string (s : string) : z =
  let neg = String.length s > 0 && s.[0] = '-' in
  let body = if neg then String.sub s 1 (String.length s - 1) else s in
  let body = (* strip leading zeros *)
    let i = ref 0 in
    while !i < String.length body - 1 && body.[!i] = '0' do incr i done;
    String.sub body !i (String.length body - !i) in
  if body = "0" then Z0 else if neg then Zneg (pos_of_decimal body) else Zpos (pos_of_decimal body)

(* positive -> decimal string: small fast path, otherwise schoolbook doubling *)
let rec pos_to_int_opt (p : positive) (depth : int) : int option =
  if depth > 60 then None else
  match p with
  | XH -> Some 1
  | XO q -> (match pos_to_int_opt q (depth + 1) with Some v -> Some (2 * v) | None -> None)
  | XI q -> (match pos_to_int_opt q (depth + 1) with Some v -> Some (2 * v + 1) | None -> None)

let decimal_of_pos (p : positive) : string =
  match pos_to_int_opt p 0 with
  | Some v -> string_of_int v
  | None ->
    (* collect bits most significant first *)
    let rec bits p acc = match p with XH -> 1 :: acc | XO q -> bits q (0 :: acc) | XI q -> bits q (1 :: acc) in
    let bl = bits p [] in
    let digits = ref [0] in  (* least significant first *)
    List.iter (fun b ->
      let carry = ref b in
      digits := List.map (fun d -> let v = 2 * d + !carry in carry := v / 10; v mod 10) !digits;
      if !carry > 0 then digits := !digits @ [!carry]) bl;
    String.concat "" (List.rev_map string_of_int !digits)

let string_of_z = function
  | Z0 -> "0"
  | Zpos p -> decimal_of_pos p
  | Zneg p -> "-" ^ decimal_of_pos p

(* ---- S-expression reader / printer ---- *)
let parse (line : string) : sx =
  let n = String.length line in
  let pos = ref 0 in
  let rec skip () = while !pos < n && (line.[!pos] = ' ' || line.[!pos] = '\t') do incr pos done
  and item () : sx =
    skip ();
    if !pos >= n then failwith "unexpected end";
    if line.[!pos] = '(' then begin
      incr pos;
      let acc = ref [] in
      skip ();
      while !pos < n && line.[!pos] <> ')' do acc := item () :: !acc; skip () done;
      if !pos >= n then failwith "missing )";
      incr pos; L (List.rev !acc)
    end else begin
      let st = !pos in
      while !pos < n && line.[!pos] <> ' ' && line.[!pos] <> ')' && line.[!pos] <> '(' do incr pos done;
      A (z_of_string (String.sub line st (!pos - st)))
    end in
  item ()

let rec print (b : Buffer.t) (s : sx) : unit =
  match s with
  | A z -> Buffer.add_string b (string_of_z z)
  | L l ->
    Buffer.add_char b '(';
    List.iteri (fun i x -> if i > 0 then Buffer.add_char b ' '; print b x) l;
    Buffer.add_char b ')'

let () =
  let b = Buffer.create 65536 in
  (try
    while true do
      let line = input_line stdin in
      if String.length line > 0 then begin
        Buffer.clear b;
        (try print b (judge (parse line)) with
         | Stack_overflow -> Buffer.add_string b "(9 0 (0))"
         | Failure m -> Buffer.add_string b ("(9 0 (0))"); prerr_endline ("driver: " ^ m));
        Buffer.add_char b '\n';
        print_string (Buffer.contents b)
      end
    done
  with End_of_file -> ());
  flush stdout
