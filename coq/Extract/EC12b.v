Require Import ExtrOcamlBasic.
Require Import SR.Judge.JC12b.
Extraction "build/C12b/judge.ml" JC12b.judge.
