Require Import ExtrOcamlBasic.
Require Import SR.Judge.JC01b.
Extraction "build/C01b/judge.ml" JC01b.judge.
