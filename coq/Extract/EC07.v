Require Import ExtrOcamlBasic.
Require Import SR.Judge.JC07.
Extraction "build/C07/judge.ml" JC07.judge.
