Require Import ExtrOcamlBasic.
Require Import SR.Judge.JC18.
Extraction "build/C18/judge.ml" JC18.judge.
