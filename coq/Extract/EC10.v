Require Import ExtrOcamlBasic.
Require Import SR.Judge.JC10.
Extraction "build/C10/judge.ml" JC10.judge.
