Require Import ExtrOcamlBasic.
Require Import SR.Judge.JC15.
Extraction "build/C15/judge.ml" JC15.judge.
