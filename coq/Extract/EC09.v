Require Import ExtrOcamlBasic.
Require Import SR.Judge.JC09.
Extraction "build/C09/judge.ml" JC09.judge.
