Require Import ExtrOcamlBasic.
Require Import SR.Judge.JC04.
Extraction "build/C04/judge.ml" JC04.judge.
